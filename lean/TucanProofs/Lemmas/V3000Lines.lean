import TucanProofs.Lemmas.LineMachinery
/-!
# V3000 atom and bond lines under every spelling the format permits

The atom line `index type x y z aamap [KEY=value …]`: key=value properties in ANY order, other
spec-defined keywords (whatever their values) in between, explicitly written defaults, `D` / `T`, repeated
keys (the last one counts).  The bond line with a multi-attachment `ENDPTS=(n a₁ … aₙ)` list.
-/
namespace Tucan

/-- a property token of an atom line -/
inductive AtomProp
  | chg (v : Int)
  | rad (v : Int)
  | mass (v : Int)
  | other (tok : Str)      -- any other spec keyword with its value, e.g. `EXACHG=1`, `CFG=2`, `RGROUPS=(2`, `1`, `2)`
  deriving Repr

def AtomProp.tok : AtomProp → Str
  | .chg v => cs "CHG=" ++ intRepr v
  | .rad v => cs "RAD=" ++ intRepr v
  | .mass v => cs "MASS=" ++ intRepr v
  | .other t => t

/-- a token that is not one of the three keywords: the text before its first `=` is none of them -/
def NotKeyword (t : Str) : Prop :=
  IsToken t ∧ (splitOnChar '=' t).head? ≠ some (cs "CHG") ∧ (splitOnChar '=' t).head? ≠ some (cs "MASS") ∧
    (splitOnChar '=' t).head? ≠ some (cs "RAD")

def AtomProp.Ok : AtomProp → Prop
  | .other t => NotKeyword t
  | .chg v => (intRepr v).length ≤ intMaxStrDigits
  | .rad v => (intRepr v).length ≤ intMaxStrDigits
  | .mass v => (intRepr v).length ≤ intMaxStrDigits

def chgValues (ps : List AtomProp) : List Int := ps.filterMap fun | .chg v => some v | _ => none
def radValues (ps : List AtomProp) : List Int := ps.filterMap fun | .rad v => some v | _ => none
def massValues (ps : List AtomProp) : List Int := ps.filterMap fun | .mass v => some v | _ => none


namespace V3L
open LineM

theorem cs_CHGeq (v : Int) : cs "CHG=" ++ intRepr v = cs "CHG" ++ '=' :: intRepr v := by simp [cs]
theorem cs_RADeq (v : Int) : cs "RAD=" ++ intRepr v = cs "RAD" ++ '=' :: intRepr v := by simp [cs]
theorem cs_MASSeq (v : Int) : cs "MASS=" ++ intRepr v = cs "MASS" ++ '=' :: intRepr v := by simp [cs]

theorem kC : KeyC (cs "CHG") := Or.inl rfl
theorem kM : KeyC (cs "MASS") := Or.inr (Or.inl rfl)
theorem kR : KeyC (cs "RAD") := Or.inr (Or.inr rfl)

theorem notKeyword_miss {key : Str} (hk : KeyC key) {t : Str} (h : NotKeyword t) : Miss key t := by
  rcases hk with rfl | rfl | rfl
  · exact h.2.1
  · exact h.2.2.1
  · exact h.2.2.2

/-- a `key'=v` token is missed by the scan for a different keyword -/
theorem miss_kv {key key' : Str} (hk : KeyC key) (hk' : KeyC key') (hne : key.head? ≠ key'.head?) (v : Int) :
    Miss key (key' ++ '=' :: intRepr v) := optTok_miss hk hk' hne (some v) _ (by simp [optTok])

theorem neCM : (cs "CHG").head? ≠ (cs "MASS").head? := by rw [cs_CHG, cs_MASS]; decide
theorem neCR : (cs "CHG").head? ≠ (cs "RAD").head? := by rw [cs_CHG, cs_RAD]; decide
theorem neMR : (cs "MASS").head? ≠ (cs "RAD").head? := by rw [cs_MASS, cs_RAD]; decide

theorem kvFrom_cons (key : Str) (t : Str) (ts : List Str) (acc : List Int) :
    kvFrom key acc (t :: ts) = kvFrom key acc [t] >>= fun acc' => kvFrom key acc' ts :=
  kvFrom_append key [t] ts acc

theorem kvFrom_hit' {key : Str} (hk : KeyC key) (v : Int) (acc : List Int)
    (hlen : (intRepr v).length ≤ intMaxStrDigits) :
    kvFrom key acc [key ++ '=' :: intRepr v] = .ok (acc ++ [v]) :=
  kvFrom_hit key v acc (fun h => (keyC_chars hk _ h).2 rfl) (intRepr_no_eq v) hlen

theorem kvFrom_miss1 {key : Str} {t : Str} (h : Miss key t) (acc : List Int) :
    kvFrom key acc [t] = .ok acc := kvFrom_miss key [t] acc (by simpa using h)

theorem kv_chg : ∀ (ps : List AtomProp) (acc : List Int), (∀ p ∈ ps, p.Ok) →
    kvFrom (cs "CHG") acc (ps.map AtomProp.tok) = .ok (acc ++ chgValues ps) := by
  intro ps
  induction ps with
  | nil => intro acc _; simp [chgValues, kvFrom]; rfl
  | cons p ps ih =>
    intro acc h
    have hp := h p (by simp)
    have ih' := fun acc' => ih acc' (fun q hq => h q (by simp [hq]))
    rw [List.map_cons, kvFrom_cons]
    cases p with
    | chg v =>
      simp only [AtomProp.tok, cs_CHGeq, kvFrom_hit' kC v acc hp, ok_bind, ih']
      simp [chgValues]
    | rad v =>
      simp only [AtomProp.tok, cs_RADeq, kvFrom_miss1 (miss_kv kC kR neCR v), ok_bind, ih']
      simp [chgValues]
    | mass v =>
      simp only [AtomProp.tok, cs_MASSeq, kvFrom_miss1 (miss_kv kC kM neCM v), ok_bind, ih']
      simp [chgValues]
    | other t =>
      simp only [AtomProp.tok, kvFrom_miss1 (notKeyword_miss kC hp), ok_bind, ih']
      simp [chgValues]

theorem kv_rad : ∀ (ps : List AtomProp) (acc : List Int), (∀ p ∈ ps, p.Ok) →
    kvFrom (cs "RAD") acc (ps.map AtomProp.tok) = .ok (acc ++ radValues ps) := by
  intro ps
  induction ps with
  | nil => intro acc _; simp [radValues, kvFrom]; rfl
  | cons p ps ih =>
    intro acc h
    have hp := h p (by simp)
    have ih' := fun acc' => ih acc' (fun q hq => h q (by simp [hq]))
    rw [List.map_cons, kvFrom_cons]
    cases p with
    | chg v =>
      simp only [AtomProp.tok, cs_CHGeq, kvFrom_miss1 (miss_kv kR kC neCR.symm v), ok_bind, ih']
      simp [radValues]
    | rad v =>
      simp only [AtomProp.tok, cs_RADeq, kvFrom_hit' kR v acc hp, ok_bind, ih']
      simp [radValues]
    | mass v =>
      simp only [AtomProp.tok, cs_MASSeq, kvFrom_miss1 (miss_kv kR kM neMR.symm v), ok_bind, ih']
      simp [radValues]
    | other t =>
      simp only [AtomProp.tok, kvFrom_miss1 (notKeyword_miss kR hp), ok_bind, ih']
      simp [radValues]

theorem kv_mass : ∀ (ps : List AtomProp) (acc : List Int), (∀ p ∈ ps, p.Ok) →
    kvFrom (cs "MASS") acc (ps.map AtomProp.tok) = .ok (acc ++ massValues ps) := by
  intro ps
  induction ps with
  | nil => intro acc _; simp [massValues, kvFrom]; rfl
  | cons p ps ih =>
    intro acc h
    have hp := h p (by simp)
    have ih' := fun acc' => ih acc' (fun q hq => h q (by simp [hq]))
    rw [List.map_cons, kvFrom_cons]
    cases p with
    | chg v =>
      simp only [AtomProp.tok, cs_CHGeq, kvFrom_miss1 (miss_kv kM kC neCM.symm v), ok_bind, ih']
      simp [massValues]
    | rad v =>
      simp only [AtomProp.tok, cs_RADeq, kvFrom_miss1 (miss_kv kM kR neMR v), ok_bind, ih']
      simp [massValues]
    | mass v =>
      simp only [AtomProp.tok, cs_MASSeq, kvFrom_hit' kM v acc hp, ok_bind, ih']
      simp [massValues]
    | other t =>
      simp only [AtomProp.tok, kvFrom_miss1 (notKeyword_miss kM hp), ok_bind, ih']
      simp [massValues]

/-- evaluation of the atom-line reader for `D` / `T`: the MASS keywords are not scanned at all -/
theorem parse_eval_iso (L : List Str) (sym0 X Y Z : Str) (iso z : Int) (chg rad : List Int)
    (h3 : getIdx L 3 = .ok sym0) (hstar : (sym0 == ['*']) = false)
    (hdet : detectHydrogenIsotopes sym0 = (['H'], iso)) (hiso : (iso == 0) = false)
    (hz : atomicNumberOf ['H'] = .ok z)
    (h4 : getIdx L 4 = .ok X) (h5 : getIdx L 5 = .ok Y) (h6 : getIdx L 6 = .ok Z)
    (hX : pyFloat X = .ok X) (hY : pyFloat Y = .ok Y) (hZ : pyFloat Z = .ok Z)
    (hc : keywordValues (cs "CHG") L = .ok chg)
    (hr : keywordValues (cs "RAD") L = .ok rad) :
    parseAtomAttributesV3000 L = .ok (some { sym := some ['H'], z := some z, part := some 0, x := some X, y := some Y, zc := some Z, chg := lastNonZero chg, mass := lastNonZero [iso], rad := lastNonZero rad }) := by
  unfold parseAtomAttributesV3000
  simp only [h3, ok_bind, hstar, Bool.false_eq_true, if_false, hdet, hz, h4, h5, h6, hX, hY, hZ, hc, hr, hiso]
  rfl

end V3L
open LineM V3L in
/-- **The atom line, every spelling.**  Tokens `M V30 index type x y z aamap` followed by properties in any
order, with any other keywords in between: the reader returns the stated element (D and T are hydrogen of
mass 2 and 3), the coordinate tokens, and for charge / radical / mass the LAST value written under that
exact keyword, an explicit 0 meaning the same as no keyword. -/
theorem parseAtomAttributes_general (idxTok sym x y z aamap : Str) (ps : List AtomProp)
    (hidx : NotKeyword idxTok) (haa : NotKeyword aamap)
    (hx : ∀ t ∈ [x, y, z], IsToken t ∧ pyFloatOk t = true)
    (hps : ∀ p ∈ ps, p.Ok)
    (hsym : sym ∈ elementSyms ∨ sym = ['D'] ∨ sym = ['T']) :
    ∃ zAt : Int, atomicNumberOf (detectHydrogenIsotopes sym).1 = .ok zAt ∧
    parseAtomAttributesV3000 (cs "M" :: cs "V30" :: idxTok :: sym :: x :: y :: z :: aamap :: ps.map AtomProp.tok) =
      .ok (some { sym := some (detectHydrogenIsotopes sym).1, z := some zAt, part := some 0,
                  x := some x, y := some y, zc := some z,
                  chg := lastNonZero (chgValues ps),
                  mass := if (detectHydrogenIsotopes sym).2 = 0 then lastNonZero (massValues ps)
                          else some (detectHydrogenIsotopes sym).2,
                  rad := lastNonZero (radValues ps) }) := by
  obtain ⟨hXt, hXf⟩ := hx x (by simp)
  obtain ⟨hYt, hYf⟩ := hx y (by simp)
  obtain ⟨hZt, hZf⟩ := hx z (by simp)
  have hpf : ∀ t, IsToken t → pyFloatOk t = true → pyFloat t = .ok t := by
    intro t ht hf
    simp only [pyFloat, hf, if_true, strip_of_all t ht.2]
  -- the symbol token is never a keyword token
  have hsymMiss : ∀ key, KeyC key → Miss key sym := by
    intro key hk
    rcases hsym with hel | rfl | rfl
    · have hsok : symOk sym = true := List.all_eq_true.1 elementSyms_symOk sym hel
      simp only [symOk, Bool.and_eq_true, bne_iff_ne, ne_eq] at hsok
      obtain ⟨⟨⟨_, hs6⟩, hs7⟩, hs8⟩ := hsok
      rcases hk with rfl | rfl | rfl
      · rw [cs_CHG]; exact hs6
      · rw [cs_MASS]; exact hs7
      · rw [cs_RAD]; exact hs8
    · exact miss_of_head hk _ (by simp)
    · exact miss_of_head hk _ (by simp)
  have hbase : ∀ key, KeyC key → ∀ t ∈ [cs "M", cs "V30", idxTok, sym, x, y, z, aamap], Miss key t := by
    intro key hk t ht
    simp only [List.mem_cons, List.not_mem_nil, or_false] at ht
    rcases ht with rfl | rfl | rfl | rfl | rfl | rfl | rfl | rfl
    · exact miss_M hk
    · exact miss_of_head hk _ (by simp [cs])
    · exact notKeyword_miss hk hidx
    · exact hsymMiss key hk
    · exact miss_of_head hk _ (float_head hXt hXf)
    · exact miss_of_head hk _ (float_head hYt hYf)
    · exact miss_of_head hk _ (float_head hZt hZf)
    · exact notKeyword_miss hk haa
  have hsplit : cs "M" :: cs "V30" :: idxTok :: sym :: x :: y :: z :: aamap :: ps.map AtomProp.tok =
      [cs "M", cs "V30", idxTok, sym, x, y, z, aamap] ++ ps.map AtomProp.tok := rfl
  have hkc : keywordValues (cs "CHG") (cs "M" :: cs "V30" :: idxTok :: sym :: x :: y :: z :: aamap :: ps.map AtomProp.tok)
      = .ok (chgValues ps) := by
    rw [keywordValues_eq, hsplit, kvFrom_append, kvFrom_miss _ _ _ (hbase _ kC), ok_bind, kv_chg ps [] hps,
      List.nil_append]
  have hkr : keywordValues (cs "RAD") (cs "M" :: cs "V30" :: idxTok :: sym :: x :: y :: z :: aamap :: ps.map AtomProp.tok)
      = .ok (radValues ps) := by
    rw [keywordValues_eq, hsplit, kvFrom_append, kvFrom_miss _ _ _ (hbase _ kR), ok_bind, kv_rad ps [] hps,
      List.nil_append]
  have hkm : keywordValues (cs "MASS") (cs "M" :: cs "V30" :: idxTok :: sym :: x :: y :: z :: aamap :: ps.map AtomProp.tok)
      = .ok (massValues ps) := by
    rw [keywordValues_eq, hsplit, kvFrom_append, kvFrom_miss _ _ _ (hbase _ kM), ok_bind, kv_mass ps [] hps,
      List.nil_append]
  have hH : ['H'] ∈ elementSyms := by decide +kernel
  rcases hsym with hel | rfl | rfl
  · have hsok : symOk sym = true := List.all_eq_true.1 elementSyms_symOk sym hel
    simp only [symOk, Bool.and_eq_true, bne_iff_ne, ne_eq] at hsok
    obtain ⟨⟨⟨⟨⟨⟨_, hs3⟩, hs4⟩, hs5⟩, _⟩, _⟩, _⟩ := hsok
    have hdet : detectHydrogenIsotopes sym = (sym, 0) := by
      simp only [detectHydrogenIsotopes, beq_iff_eq, hs4, hs5, if_false]
    have hstar : (sym == ['*']) = false := by simpa using hs3
    obtain ⟨zAt, hz, _, _⟩ := atomicNumberOf_elementSyms sym hel
    refine ⟨zAt, by rw [hdet]; exact hz, ?_⟩
    rw [parse_eval _ sym x y z zAt _ _ _ rfl hstar hdet hz rfl rfl rfl
      (hpf x hXt hXf) (hpf y hYt hYf) (hpf z hZt hZf) hkc hkm hkr, hdet]
    simp
  · obtain ⟨zAt, hz, _, _⟩ := atomicNumberOf_elementSyms ['H'] hH
    have hdet : detectHydrogenIsotopes ['D'] = (['H'], 2) := by decide
    refine ⟨zAt, by rw [hdet]; exact hz, ?_⟩
    rw [parse_eval_iso _ ['D'] x y z 2 zAt _ _ rfl (by decide) hdet (by decide) hz rfl rfl rfl
      (hpf x hXt hXf) (hpf y hYt hYf) (hpf z hZt hZf) hkc hkr, hdet]
    simp [lastNonZero]
  · obtain ⟨zAt, hz, _, _⟩ := atomicNumberOf_elementSyms ['H'] hH
    have hdet : detectHydrogenIsotopes ['T'] = (['H'], 3) := by decide
    refine ⟨zAt, by rw [hdet]; exact hz, ?_⟩
    rw [parse_eval_iso _ ['T'] x y z 3 zAt _ _ rfl (by decide) hdet (by decide) hz rfl rfl rfl
      (hpf x hXt hXf) (hpf y hYt hYf) (hpf z hZt hZf) hkc hkr, hdet]
    simp [lastNonZero]

/-- a star atom line is recognised whatever follows the `*` -/
theorem parseAtomAttributes_star (idxTok : Str) (rest : List Str) :
    parseAtomAttributesV3000 (cs "M" :: cs "V30" :: idxTok :: ['*'] :: rest) = .ok none := by
  unfold parseAtomAttributesV3000
  rfl

/-- the `ENDPTS=(n a₁ … aₙ)` list, as the tokens of a bond line: `ENDPTS=(n`, `a₁`, …, `aₙ)` -/
def endptsToks (ends : List Nat) : List Str :=
  match ends with
  | [] => [cs "ENDPTS=(0)"]
  | _ =>
    let nums := (natRepr ends.length) :: ends.map natRepr
    match nums.reverse with
    | [] => []
    | last :: initRev => (cs "ENDPTS=(" ++ (initRev.reverse.headD [])) :: (initRev.reverse.drop 1) ++ [last ++ [')']]


namespace V3L
open LineM

/-! ### the bond line: locating the `ENDPTS=(…)` list in the joined text -/

/-- every token followed by one blank -/
def sp (ts : List Str) : Str := (ts.map (· ++ [' '])).flatten

theorem sp_cons (t : Str) (ts : List Str) : sp (t :: ts) = t ++ ' ' :: sp ts := by simp [sp]

theorem joinSp_cons_ne (a : Str) : ∀ (ts : List Str), ts ≠ [] → joinSp (a :: ts) = a ++ ' ' :: joinSp ts
  | [], h => absurd rfl h
  | _ :: _, _ => rfl

theorem joinSp_sp (pre : List Str) (t : Str) (rest : List Str) :
    joinSp (pre ++ t :: rest) = sp pre ++ joinSp (t :: rest) := by
  induction pre with
  | nil => rfl
  | cons a pre ih =>
    rw [List.cons_append, joinSp_cons_ne a _ (by simp), ih, sp_cons]
    simp

theorem prefix_no_blank : ∀ (p t R : Str), ' ' ∉ p → p.isPrefixOf (t ++ ' ' :: R) = true → p.isPrefixOf t = true := by
  intro p
  induction p with
  | nil => intro t R _ _; simp
  | cons a p ih =>
    intro t R hp h
    cases t with
    | nil =>
      simp only [List.nil_append, List.isPrefixOf, Bool.and_eq_true, beq_iff_eq] at h
      exact absurd (by simp [h.1]) hp
    | cons c r =>
      simp only [List.cons_append, List.isPrefixOf, Bool.and_eq_true, beq_iff_eq] at h ⊢
      exact ⟨h.1, ih r R (fun hm => hp (by simp [hm])) h.2⟩

/-- a blank-free pattern that does not occur in `t` is first found in `t ++ ' ' :: R` where it is found in `R` -/
theorem findInfix_tok_blank (p : Str) (hp : ' ' ∉ p) : ∀ (t R : Str), isInfix p t = false →
    findInfix p (t ++ ' ' :: R) = (findInfix p R).map (· + (t.length + 1)) := by
  intro t
  induction t with
  | nil =>
    intro R h
    have hne : p.isPrefixOf ([] ++ ' ' :: R) = false := by
      cases hq : p.isPrefixOf ([] ++ ' ' :: R) with
      | false => rfl
      | true =>
        have := prefix_no_blank p [] R hp hq
        cases p with
        | nil => simp [isInfix] at h
        | cons a p => simp [List.isPrefixOf] at this
    simp only [List.nil_append] at hne ⊢
    simp only [findInfix, hne, Bool.false_eq_true, if_false, List.length_nil, Nat.zero_add]
  | cons c r ih =>
    intro R h
    simp only [isInfix, Bool.or_eq_false_iff] at h
    have hne : p.isPrefixOf ((c :: r) ++ ' ' :: R) = false := by
      cases hq : p.isPrefixOf ((c :: r) ++ ' ' :: R) with
      | false => rfl
      | true => rw [prefix_no_blank p (c :: r) R hp hq] at h; exact absurd h.1 (by simp)
    rw [List.cons_append] at hne ⊢
    simp only [findInfix, hne, Bool.false_eq_true, if_false, ih R h.2, Option.map_map, List.length_cons]
    cases findInfix p R with
    | none => rfl
    | some k => simp only [Option.map_some, Function.comp, Option.some.injEq]; omega

theorem findInfix_sp (p : Str) (hp : ' ' ∉ p) (R : Str) : ∀ (pre : List Str), (∀ t ∈ pre, isInfix p t = false) →
    findInfix p (sp pre ++ R) = (findInfix p R).map (· + (sp pre).length) := by
  intro pre
  induction pre with
  | nil => intro _; simp [sp]
  | cons a pre ih =>
    intro h
    rw [sp_cons, List.append_assoc, List.cons_append, findInfix_tok_blank p hp a _ (h a (by simp)),
      ih (fun t ht => h t (by simp [ht])), Option.map_map]
    cases findInfix p R with
    | none => rfl
    | some k =>
      simp only [Option.map_some, Function.comp, Option.some.injEq, List.length_append, List.length_cons]; omega

theorem findInfix_self (p R : Str) : findInfix p (p ++ R) = some 0 := by
  cases hq : p ++ R with
  | nil =>
    have : p = [] := (List.append_eq_nil_iff.1 hq).1
    subst this; rfl
  | cons c r =>
    have : p.isPrefixOf (c :: r) = true := by
      rw [← hq, List.isPrefixOf_iff_prefix]; exact List.prefix_append p R
    simp only [findInfix, this, if_true]

/-- the first occurrence of a character that is not in the text before it -/
theorem findInfix_char (c : Char) : ∀ (A B : Str), c ∉ A → findInfix [c] (A ++ c :: B) = some A.length := by
  intro A
  induction A with
  | nil => intro B _; simp [findInfix, List.isPrefixOf]
  | cons a A ih =>
    intro B h
    have hne : (c == a) = false := by
      simp only [beq_eq_false_iff_ne, ne_eq]; rintro rfl; exact h (by simp)
    rw [List.cons_append]
    simp only [findInfix, List.isPrefixOf, hne, Bool.false_and, Bool.false_eq_true, if_false,
      ih B (fun hm => h (by simp [hm])), Option.map_some, List.length_cons]

theorem cs_ENDPTS_len : (cs "ENDPTS=(").length = 8 := by simp [cs]
theorem cs_ENDPTS_noblank : ' ' ∉ cs "ENDPTS=(" := by simp [cs]

theorem endptsMatch_eq (A inner B : Str) (hA : findInfix (cs "ENDPTS=(") (A ++ (cs "ENDPTS=(" ++ (inner ++ ')' :: B))) = some A.length)
    (hinner : inner ≠ []) (hB : ')' ∉ B) :
    endptsMatch (A ++ (cs "ENDPTS=(" ++ (inner ++ ')' :: B))) = some inner := by
  have hbody : (A ++ (cs "ENDPTS=(" ++ (inner ++ ')' :: B))).drop (A.length + 8) = inner ++ ')' :: B := by
    rw [← List.append_assoc]
    exact List.drop_left' (by rw [List.length_append, cs_ENDPTS_len])
  have hrev : (inner ++ ')' :: B).reverse = B.reverse ++ ')' :: inner.reverse := by simp
  have hfind : findInfix [')'] (B.reverse ++ ')' :: inner.reverse) = some B.reverse.length :=
    findInfix_char ')' _ _ (fun h => hB (List.mem_reverse.1 h))
  have hpos : (inner ++ ')' :: B).length - 1 - B.reverse.length = inner.length := by
    simp only [List.length_append, List.length_cons, List.length_reverse]; omega
  have hlen : inner.length ≥ 1 := by
    cases inner with
    | nil => exact absurd rfl hinner
    | cons _ _ => simp
  unfold endptsMatch
  simp only [hA, hbody, hrev, hfind, hpos, hlen, if_true, List.take_left]

/-! ### `str.split()` on blank-joined tokens -/

theorem go_tok : ∀ (t cur : Str) (acc : List Str) (R : Str), (∀ c ∈ t, isPySpace c = false) →
    splitWs.go cur acc (t ++ R) = splitWs.go (t.reverse ++ cur) acc R := by
  intro t
  induction t with
  | nil => intro cur acc R _; rfl
  | cons c r ih =>
    intro cur acc R h
    rw [List.cons_append, splitWs.go]
    simp only [h c (by simp), Bool.false_eq_true, if_false]
    rw [ih (c :: cur) acc R (fun x hx => h x (by simp [hx]))]
    simp

theorem go_sufx : ∀ (toks : List Str) (cur : Str) (acc : List Str), cur ≠ [] → (∀ t ∈ toks, IsToken t) →
    splitWs.go cur acc (sufx toks) = acc.reverse ++ cur.reverse :: toks := by
  intro toks
  induction toks with
  | nil =>
    intro cur acc hc _
    have : cur.isEmpty = false := by cases cur with
      | nil => exact absurd rfl hc
      | cons _ _ => rfl
    simp [sufx_nil, splitWs.go, this]
  | cons t ts ih =>
    intro cur acc hc h
    have hce : cur.isEmpty = false := by cases cur with
      | nil => exact absurd rfl hc
      | cons _ _ => rfl
    have ht := h t (by simp)
    have hsp : isPySpace ' ' = true := by decide
    rw [sufx_cons, List.cons_append, splitWs.go]
    simp only [hsp, if_true, hce, Bool.false_eq_true, if_false]
    rw [go_tok t [] _ _ ht.2, List.append_nil,
      ih t.reverse (cur.reverse :: acc) (by simpa using ht.1) (fun x hx => h x (by simp [hx]))]
    simp

theorem splitWs_joinSp (t : Str) (ts : List Str) (h : ∀ x ∈ t :: ts, IsToken x) :
    splitWs (joinSp (t :: ts)) = t :: ts := by
  have ht := h t (by simp)
  rw [joinSp_cons]
  show splitWs.go [] [] (t ++ sufx ts) = _
  rw [go_tok t [] [] _ ht.2, List.append_nil,
    go_sufx ts t.reverse [] (by simpa using ht.1) (fun x hx => h x (by simp [hx]))]
  simp

theorem natRepr_isToken (n : Nat) : IsToken (natRepr n) :=
  ⟨(natRepr_shape n).1, fun c hc => isDigit_not_space ((natRepr_shape n).2.1 c hc)⟩

theorem mapM_pyInt_natRepr : ∀ (l : List Nat), (∀ e ∈ l, (natRepr e).length ≤ intMaxStrDigits) →
    (l.map natRepr).mapM pyInt = .ok (l.map fun (e : Nat) => (e : Int)) := by
  intro l
  induction l with
  | nil => intro _; rfl
  | cons e l ih =>
    intro h
    rw [List.map_cons, List.mapM_cons, pyInt_natRepr e (h e (by simp)), ok_bind,
      ih (fun x hx => h x (by simp [hx])), ok_bind]
    rfl

/-- the tokens of a non-empty list: `ENDPTS=(n`, all but the last endpoint, the last endpoint with `)` -/
theorem endptsToks_concat (init : List Nat) (l : Nat) :
    endptsToks (init ++ [l]) =
      (cs "ENDPTS=(" ++ natRepr (init.length + 1)) :: init.map natRepr ++ [natRepr l ++ [')']] := by
  have hcons : ∀ (e : Nat) (es : List Nat), endptsToks (e :: es) =
      match ((natRepr (e :: es).length) :: (e :: es).map natRepr).reverse with
      | [] => []
      | last :: initRev => (cs "ENDPTS=(" ++ (initRev.reverse.headD [])) :: (initRev.reverse.drop 1) ++ [last ++ [')']] :=
    fun _ _ => rfl
  cases hil : init ++ [l] with
  | nil => simp at hil
  | cons e es =>
    rw [hcons, ← hil]
    simp

end V3L
open LineM V3L in
/-- **Multi-attachment bonds.**  A bond line whose tokens contain `ENDPTS=(n a₁ … aₙ)` (n ≥ 1 endpoints,
any position among the optional keywords, none of which contains a parenthesis) expands to one bond per
listed endpoint from the non-star atom. -/
theorem parseBondLineWithStarAtom_endpts (pre post : List Str) (ends : List Nat) (start : Int)
    (hne : ends ≠ [])
    (hpre : ∀ t ∈ pre, IsToken t ∧ ¬ isInfix (cs "ENDPTS=(") t = true ∧ ')' ∉ t)
    (hpost : ∀ t ∈ post, IsToken t ∧ ')' ∉ t)
    (hsize : ∀ e ∈ ends.length :: ends, (natRepr e).length ≤ intMaxStrDigits) :
    parseBondLineWithStarAtom (pre ++ endptsToks ends ++ post) start =
      .ok (ends.map fun (e : Nat) => (start, (e : Int) - 1)) := by
  obtain ⟨init, l, rfl⟩ : ∃ init l, ends = init ++ [l] :=
    ⟨ends.dropLast, ends.getLast hne, (List.dropLast_concat_getLast hne).symm⟩
  -- the joined text
  let nums : List Str := natRepr (init.length + 1) :: (init ++ [l]).map natRepr
  have hinnerTok : ∀ t ∈ nums, IsToken t := by
    intro t ht
    simp only [nums, List.mem_cons, List.mem_map] at ht
    rcases ht with rfl | ⟨e, _, rfl⟩
    · exact natRepr_isToken _
    · exact natRepr_isToken _
  have hjoin : joinSp (pre ++ endptsToks (init ++ [l]) ++ post) =
      sp pre ++ (cs "ENDPTS=(" ++ (joinSp nums ++ ')' :: sufx post)) := by
    rw [endptsToks_concat, List.append_assoc, List.cons_append, List.cons_append, joinSp_sp, joinSp_cons, joinSp_cons]
    simp [sufx_append, sufx_cons, sufx_nil]
  have hfind : findInfix (cs "ENDPTS=(") (sp pre ++ (cs "ENDPTS=(" ++ (joinSp nums ++ ')' :: sufx post))) =
      some (sp pre).length := by
    rw [findInfix_sp _ cs_ENDPTS_noblank _ pre (fun t ht => by simpa using (hpre t ht).2.1), findInfix_self]
    simp
  have hinner : joinSp nums ≠ [] := by
    rw [joinSp_cons]
    intro h
    exact (natRepr_shape (init.length + 1)).1 (List.append_eq_nil_iff.1 h).1
  have hpostp : ')' ∉ sufx post := by
    intro hm
    simp only [sufx, List.mem_flatten, List.mem_map] at hm
    obtain ⟨x, ⟨t, ht, rfl⟩, hx⟩ := hm
    rcases List.mem_cons.1 hx with h | h
    · revert h; decide
    · exact (hpost t ht).2 h
  have hmatch := endptsMatch_eq (sp pre) (joinSp nums) (sufx post) hfind hinner hpostp
  have hsplit : splitWs (joinSp nums) = nums := splitWs_joinSp _ _ hinnerTok
  have hmap : nums.mapM pyInt = .ok (((init.length + 1) :: (init ++ [l])).map fun (e : Nat) => (e : Int)) := by
    have := mapM_pyInt_natRepr ((init.length + 1) :: (init ++ [l])) (by simpa using hsize)
    simpa [nums] using this
  unfold parseBondLineWithStarAtom
  rw [hjoin, hmatch]
  simp only [hsplit, hmap, ok_bind, List.map_cons, getIdx, List.getElem?_cons_zero, List.length_cons,
    List.length_map, List.length_append, List.length_nil, Nat.add_sub_cancel, bne_self_eq_false,
    Bool.false_eq_true, if_false, List.drop_succ_cons, List.drop_zero, List.map_map]
  rfl

/-- without an `ENDPTS` list a bond to a star atom contributes no bond -/
theorem parseBondLineWithStarAtom_none (line : List Str) (start : Int)
    (h : findInfix (cs "ENDPTS=(") (joinSp line) = none) :
    parseBondLineWithStarAtom line start = .ok [] := by
  unfold parseBondLineWithStarAtom endptsMatch
  rw [h]


end Tucan
