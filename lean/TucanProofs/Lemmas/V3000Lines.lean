import TucanProofs.Lemmas.LineMachinery
/-!
# V3000 atom and bond lines under every spelling the format permits

The atom line `index type x y z aamap [KEY=value …]`: key=value properties in ANY order, other
spec-defined keywords (whatever their values) in between, explicitly written defaults, `D` / `T`, repeated
keys (the last one counts).  The bond line with a multi-attachment `ENDPTS=(n a₁ … aₙ)` list.
-/
namespace Tucan

/-- a property token of an atom line -/
inductive AtomProp
  | chg (v : Int)
  | rad (v : Int)
  | mass (v : Int)
  | other (tok : Str)      -- any other spec keyword with its value, e.g. `EXACHG=1`, `CFG=2`, `RGROUPS=(2`, `1`, `2)`
  deriving Repr

def AtomProp.tok : AtomProp → Str
  | .chg v => cs "CHG=" ++ intRepr v
  | .rad v => cs "RAD=" ++ intRepr v
  | .mass v => cs "MASS=" ++ intRepr v
  | .other t => t

/-- a token that is not one of the three keywords: the text before its first `=` is none of them -/
def NotKeyword (t : Str) : Prop :=
  IsToken t ∧ (splitOnChar '=' t).head? ≠ some (cs "CHG") ∧ (splitOnChar '=' t).head? ≠ some (cs "MASS") ∧
    (splitOnChar '=' t).head? ≠ some (cs "RAD")

def AtomProp.Ok : AtomProp → Prop
  | .other t => NotKeyword t
  | .chg v => (intRepr v).length ≤ intMaxStrDigits
  | .rad v => (intRepr v).length ≤ intMaxStrDigits
  | .mass v => (intRepr v).length ≤ intMaxStrDigits

def chgValues (ps : List AtomProp) : List Int := ps.filterMap fun | .chg v => some v | _ => none
def radValues (ps : List AtomProp) : List Int := ps.filterMap fun | .rad v => some v | _ => none
def massValues (ps : List AtomProp) : List Int := ps.filterMap fun | .mass v => some v | _ => none

/-- **The atom line, every spelling.**  Tokens `M V30 index type x y z aamap` followed by properties in any
order, with any other keywords in between: the reader returns the stated element (D and T are hydrogen of
mass 2 and 3), the coordinate tokens, and for charge / radical / mass the LAST value written under that
exact keyword, an explicit 0 meaning the same as no keyword. -/
theorem parseAtomAttributes_general (idxTok sym x y z aamap : Str) (ps : List AtomProp)
    (hidx : NotKeyword idxTok) (haa : NotKeyword aamap)
    (hx : ∀ t ∈ [x, y, z], IsToken t ∧ pyFloatOk t = true)
    (hps : ∀ p ∈ ps, p.Ok)
    (hsym : sym ∈ elementSyms ∨ sym = ['D'] ∨ sym = ['T']) :
    ∃ zAt : Int, atomicNumberOf (detectHydrogenIsotopes sym).1 = .ok zAt ∧
    parseAtomAttributesV3000 (cs "M" :: cs "V30" :: idxTok :: sym :: x :: y :: z :: aamap :: ps.map AtomProp.tok) =
      .ok (some { sym := some (detectHydrogenIsotopes sym).1, z := some zAt, part := some 0,
                  x := some x, y := some y, zc := some z,
                  chg := lastNonZero (chgValues ps),
                  mass := if (detectHydrogenIsotopes sym).2 = 0 then lastNonZero (massValues ps)
                          else some (detectHydrogenIsotopes sym).2,
                  rad := lastNonZero (radValues ps) }) := by
  sorry

/-- a star atom line is recognised whatever follows the `*` -/
theorem parseAtomAttributes_star (idxTok : Str) (rest : List Str) :
    parseAtomAttributesV3000 (cs "M" :: cs "V30" :: idxTok :: ['*'] :: rest) = .ok none := by
  sorry

/-- the `ENDPTS=(n a₁ … aₙ)` list, as the tokens of a bond line: `ENDPTS=(n`, `a₁`, …, `aₙ)` -/
def endptsToks (ends : List Nat) : List Str :=
  match ends with
  | [] => [cs "ENDPTS=(0)"]
  | _ =>
    let nums := (natRepr ends.length) :: ends.map natRepr
    match nums.reverse with
    | [] => []
    | last :: initRev => (cs "ENDPTS=(" ++ (initRev.reverse.headD [])) :: (initRev.reverse.drop 1) ++ [last ++ [')']]

/-- **Multi-attachment bonds.**  A bond line whose tokens contain `ENDPTS=(n a₁ … aₙ)` (n ≥ 1 endpoints,
any position among the optional keywords, none of which contains a parenthesis) expands to one bond per
listed endpoint from the non-star atom. -/
theorem parseBondLineWithStarAtom_endpts (pre post : List Str) (ends : List Nat) (start : Int)
    (hne : ends ≠ [])
    (hpre : ∀ t ∈ pre, IsToken t ∧ ¬ isInfix (cs "ENDPTS=(") t = true ∧ ')' ∉ t)
    (hpost : ∀ t ∈ post, IsToken t ∧ ')' ∉ t)
    (hsize : ∀ e ∈ ends.length :: ends, (natRepr e).length ≤ intMaxStrDigits) :
    parseBondLineWithStarAtom (pre ++ endptsToks ends ++ post) start =
      .ok (ends.map fun (e : Nat) => (start, (e : Int) - 1)) := by
  sorry

/-- without an `ENDPTS` list a bond to a star atom contributes no bond -/
theorem parseBondLineWithStarAtom_none (line : List Str) (start : Int)
    (h : findInfix (cs "ENDPTS=(") (joinSp line) = none) :
    parseBondLineWithStarAtom line start = .ok [] := by
  sorry

end Tucan
