import TucanProofs.Lemmas.FilesIdx
/-!
# Two descriptions of one molecule: another listing order of the atoms

`SameIdentity m m'` compares two molecules atom position by atom position.  Two *descriptions* of one molecule
may also list the atoms in another order (and, with them, renumber the bonds, list them in another order and
write their endpoints the other way round).  `SameMolecule σ τ m m'` says that `m'` is `m` with the atom at
position `i` moved to position `σ i` (`τ` is the inverse), identities kept and bonded pairs carried along.
Graphs of two such molecules are related by `Iso SameIdent σ`, hence get the same TUCAN string.
-/
namespace Tucan

/-- `m'` describes the same molecule as `m`, the atom at position `i` of `m` being listed at position `σ i`
of `m'`; `τ` is the inverse of `σ` on the positions -/
structure SameMolecule (σ τ : Nat → Nat) (m m' : Mol) : Prop where
  n : m.atoms.length = m'.atoms.length
  maps : ∀ i, i < m.atoms.length → σ i < m.atoms.length ∧ τ i < m.atoms.length ∧ τ (σ i) = i ∧ σ (τ i) = i
  atom : ∀ i (h : i < m.atoms.length) (h' : σ i < m'.atoms.length), m.atoms[i].identity = m'.atoms[σ i].identity
  bonds : ∀ i j, i < m.atoms.length → j < m.atoms.length →
    ((∃ b ∈ m.bonds, (b.a = i ∧ b.b = j) ∨ (b.a = j ∧ b.b = i)) ↔
     (∃ b ∈ m'.bonds, (b.a = σ i ∧ b.b = σ j) ∨ (b.a = σ j ∧ b.b = σ i)))

namespace FPerm

theorem nodup_map_on {f : Nat → Nat} {l : List Nat} (hd : l.Nodup)
    (hf : ∀ a ∈ l, ∀ b ∈ l, f a = f b → a = b) : (l.map f).Nodup := by
  rw [List.nodup_iff_pairwise_ne] at hd
  rw [List.nodup_iff_pairwise_ne, List.pairwise_map]
  refine List.Pairwise.imp_of_mem ?_ hd
  intro a b ha hb hne heq
  exact hne (hf a ha b hb heq)

end FPerm

/-- position by position is the special case `σ = τ = id` -/
theorem sameMolecule_of_sameIdentity (m m' : Mol) (h : SameIdentity m m') : SameMolecule id id m m' :=
  ⟨h.n, fun _ hi => ⟨hi, hi, rfl, rfl⟩, fun i hi hi' => h.atom i hi hi', fun i j _ _ => h.bonds i j⟩

/-- graphs of two descriptions of one molecule are the same molecule, atom `i` ↦ atom `σ i` -/
theorem isGraphOf_iso_perm (σ τ : Nat → Nat) (m m' : Mol) (hm : m.Ok) (hm' : m'.Ok) (same : SameMolecule σ τ m m')
    (c c' : List (Str × Str × Str)) (hc : c.length = m.atoms.length) (hc' : c'.length = m'.atoms.length)
    (g g' : Graph) (hg : IsGraphOf g m c) (hg' : IsGraphOf g' m' c') : g.Chem ∧ Iso SameIdent σ g g' := by
  obtain ⟨hlab, hwf, hsimp, hattr, hnb⟩ := hg
  obtain ⟨hlab', hwf', hsimp', hattr', hnb'⟩ := hg'
  have hn := same.n
  have hinj : ∀ a, a < m.atoms.length → ∀ b, b < m.atoms.length → σ a = σ b → a = b := by
    intro a ha b hb h
    rw [← (same.maps a ha).2.2.1, ← (same.maps b hb).2.2.1, h]
  refine ⟨?_, ?_⟩
  · intro a ha x hx
    rw [hlab, List.mem_range] at ha
    rw [hattr a ha (by omega)] at hx
    rw [← Option.some.inj hx]
    exact Agree.record_chem _ _ (hm.sym _ (List.getElem_mem _))
  · refine ⟨?_, ?_, ?_, ?_⟩
    · rw [hlab, hlab', ← hn]
      refine (List.perm_ext_iff_of_nodup List.nodup_range (FPerm.nodup_map_on List.nodup_range ?_)).2 ?_
      · intro a ha b hb
        rw [List.mem_range] at ha hb
        exact hinj a ha b hb
      · intro k
        rw [List.mem_range, List.mem_map]
        constructor
        · intro hk
          exact ⟨τ k, List.mem_range.2 (same.maps k hk).2.1, (same.maps k hk).2.2.2⟩
        · rintro ⟨i, hi, rfl⟩
          rw [List.mem_range] at hi
          exact (same.maps i hi).1
    · intro a ha b hb
      rw [hlab, List.mem_range] at ha hb
      exact hinj a ha b hb
    · intro a ha
      rw [hlab, List.mem_range] at ha
      have hσ := (same.maps a ha).1
      exact ⟨_, _, hattr a ha (by omega), hattr' (σ a) (by omega) (by omega),
        Agree.record_sameIdent _ _ _ _ (same.atom a ha (by omega))⟩
    · intro a ha
      rw [hlab, List.mem_range] at ha
      have hlt : ∀ j ∈ g.nbrs a, j < m.atoms.length := by
        intro j hj
        obtain ⟨b, hb, ⟨rfl, rfl⟩ | ⟨rfl, rfl⟩⟩ := (hnb a j).1 hj
        · exact (hm.bonds b hb).2.1
        · exact (hm.bonds b hb).1
      refine (List.perm_ext_iff_of_nodup (Agree.nbrs_nodup hwf' (σ a))
        (FPerm.nodup_map_on (Agree.nbrs_nodup hwf a) ?_)).2 ?_
      · intro x hx y hy
        exact hinj x (hlt x hx) y (hlt y hy)
      · intro j'
        rw [List.mem_map]
        constructor
        · intro hj'
          have hb' := (hnb' (σ a) j').1 hj'
          have hj'n : j' < m.atoms.length := by
            obtain ⟨b, hb, ⟨e1, e2⟩ | ⟨e1, e2⟩⟩ := hb'
            · rw [← e2, hn]; exact (hm'.bonds b hb).2.1
            · rw [← e1, hn]; exact (hm'.bonds b hb).1
          obtain ⟨-, hτ, -, hστ⟩ := same.maps j' hj'n
          refine ⟨τ j', ?_, hστ⟩
          rw [hnb]
          refine (same.bonds a (τ j') ha hτ).2 ?_
          rw [hστ]
          exact hb'
        · rintro ⟨j, hj, rfl⟩
          rw [hnb']
          exact (same.bonds a j ha (hlt j hj)).1 ((hnb a j).1 hj)

/-- … and get the same TUCAN string, for every oracle meeting the bliss contract -/
theorem isGraphOf_same_string_perm (O : CanonOracle) (σ τ : Nat → Nat) (m m' : Mol) (hm : m.Ok) (hm' : m'.Ok)
    (same : SameMolecule σ τ m m') (c c' : List (Str × Str × Str))
    (hc : c.length = m.atoms.length) (hc' : c'.length = m'.atoms.length)
    (g g' : Graph) (hg : IsGraphOf g m c) (hg' : IsGraphOf g' m' c') (s s' : Str)
    (hs : tucanOf O.order g = .ok s) (hs' : tucanOf O.order g' = .ok s') : s = s' := by
  obtain ⟨hchem, hiso⟩ := isGraphOf_iso_perm σ τ m m' hm hm' same c c' hc hc' g g' hg hg'
  exact tucan_invariant O hiso hchem hg.wf hg.simple hg'.wf hg'.simple hs hs'

end Tucan
