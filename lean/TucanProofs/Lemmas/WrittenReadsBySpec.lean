import TucanProofs.Lemmas.WrittenIsV3000
/-!
# Reading the written file, through the reader's specification

`written_isV3000File` says the writer's output is a V3000 connection table as C07's specification defines one.
Feeding it to that specification (`IsV3000File.reads`) gives a second, independent account of what the reader
returns for a written file: the closed forms `atomDictOf` / `bondDictOf` of the written entries — no star atoms,
every bond between two written atoms.  (`C09_write_read` reaches the same reader result through the writer-specific
lemmas of `WriteRead.lean`; the two routes share only the line machinery.)
-/
namespace Tucan

namespace WRS

theorem stars_nil (ns : List Node) : starsOf (ns.map writtenAtom) = [] := by
  unfold starsOf
  induction ns with
  | nil => rfl
  | cons n r ih =>
    rw [List.map_cons, List.filterMap_cons]
    simp only [writtenAtom, AtomEntry.isStar]
    exact ih

/-- the fold of `atomDictOf`, from any accumulator: earlier keys stay, each node adds its label -/
theorem fold_keys (k : Int) : ∀ (ns : List Node) (d : List (Int × Atom)),
    ((alookup k d).isSome = true ∨ ∃ n ∈ ns, k = (n.id : Int)) →
    (alookup k ((ns.map writtenAtom).foldl (fun d e => match e.record with
      | some a => ainsert (e.idx - 1) a d
      | none => d) d)).isSome = true
  | [], d, h => by
    rcases h with h | ⟨n, hn, _⟩
    · exact h
    · cases hn
  | n :: r, d, h => by
    rw [List.map_cons, List.foldl_cons]
    apply fold_keys k r
    rcases h with h | ⟨m, hm, hk⟩
    · left
      simp only [writtenAtom, AtomEntry.record, AtomEntry.idx]
      rw [V2000.alookup_ainsert]
      split
      · rfl
      · exact h
    · rcases List.mem_cons.1 hm with rfl | hm
      · left
        simp only [writtenAtom, AtomEntry.record, AtomEntry.idx]
        rw [V2000.alookup_ainsert]
        have : ((m.id : Int) + 1 - 1 == k) = true := by
          rw [hk]; simp
        rw [if_pos this]; rfl
      · exact Or.inr ⟨m, hm, hk⟩

theorem key_isSome (ns : List Node) (a : Nat) (ha : a ∈ ns.map (·.id)) :
    (alookup (a : Int) (atomDictOf (ns.map writtenAtom))).isSome = true := by
  obtain ⟨n, hn, rfl⟩ := List.mem_map.1 ha
  exact fold_keys _ ns [] (Or.inr ⟨n, hn, rfl⟩)

end WRS

/-- the written entries contain no star atom, and every written bond joins two written atoms -/
theorem written_bondsOk (g : Graph) (hw : g.WF) :
    V3BondsOk (g.nodes.map writtenAtom) (g.edges.zipIdx.map writtenBond) := by
  unfold V3BondsOk
  rw [WRS.stars_nil]
  refine ⟨?_, ?_⟩
  · intro b _ hc
    simp at hc
  · intro b hb t ht
    obtain ⟨⟨⟨u, v, d⟩, k⟩, hp, rfl⟩ := List.mem_map.1 hb
    have he : (u, v, d) ∈ g.edges := (List.mem_zipIdx hp).2.2 ▸ List.getElem_mem _
    have hd := Graph.mem_edges g hw u v d he
    have hu : u ∈ g.labels := NxE.mem_labels_of_mem_nbrsD hd
    have hv : v ∈ g.labels := NxE.WF.closedD hw hd
    simp only [BondEntry.tuples, List.contains_nil, Bool.false_eq_true, if_false, List.mem_singleton,
      writtenBond] at ht
    subst ht
    simp only [Int.add_sub_cancel]
    exact ⟨WRS.key_isSome g.nodes u hu, WRS.key_isSome g.nodes v hv⟩

/-- **The reader's specification applied to the written file.** -/
theorem written_reads_by_spec (g : Graph) (hw : g.WF)
    (hlab : g.labels.Perm (List.range g.numberOfNodes))
    (hatoms : ∀ n ∈ g.nodes, WritableAtom n)
    (hbonds : ∀ n ∈ g.nodes, ∀ e ∈ n.nbrs, ∀ bt, e.2.btype = some bt → (intRepr bt).length ≤ intMaxStrDigits)
    (hsize : (natRepr (g.numberOfNodes + g.numberOfEdges + 1)).length ≤ intMaxStrDigits)
    (hdr : Str) (hh : GoodHeader hdr) (lines : List Str)
    (hwr : graphToMolfileLines g hdr = .ok lines) :
    graphAttributesV3000 lines =
      .ok (atomDictOf (g.nodes.map writtenAtom), bondDictOf [] (g.edges.zipIdx.map writtenBond)) ∧
    starsOf (g.nodes.map writtenAtom) = [] := by
  have h := (written_isV3000File g hw hlab hatoms hbonds hsize hdr hh lines hwr).1.reads (written_bondsOk g hw)
  rw [WRS.stars_nil] at h
  exact ⟨h, WRS.stars_nil _⟩

end Tucan
