import TucanModel.Parser
import TucanModel.Molfile
import TucanModel.Serialize
/-!
# Facts about the regenerated tables

`TucanModel/Generated/Tables.lean` is rewritten from `/repo`'s working tree on every run by
`tools/extract_tables.py`.  Everything here is a closed statement about those tables, re-checked by
the kernel (`decide +kernel`) against what the source says *now*.  If somebody edits the element
table, the grammar (`tucan.g4` or the generated parser/lexer), the charge codes or the key maps, the
corresponding statement stops checking.
-/
namespace Tucan
open Tables

def elementSymbols : List String := elementTable.map (·.1)

/-- the 118 elements, numbered 1..118 in table order, symbols distinct -/
theorem elementTable_wellFormed :
    elementTable.length = 118 ∧ elementTable.map (·.2) = (List.range 118).map (· + 1) ∧
    elementSymbols.Nodup := by
  decide +kernel

/-- every symbol is one upper-case letter optionally followed by one lower-case letter -/
def symbolShapeOk (s : Str) : Bool :=
  match s with
  | [a] => isUpper a
  | [a, b] => isUpper a && isLower b
  | _ => false

def elementSyms : List Str := elementSymbols.map String.toList

theorem elementSymbols_shape : elementSyms.all symbolShapeOk = true := by
  decide +kernel

/-- strictly ascending in code-point order (Python's `sorted` order on `str`) -/
def chainLt : List Str → Bool
  | a :: b :: r => decide (a < b) && chainLt (b :: r)
  | _ => true

/-- `without_carbon` is a chain of optional element rules: every element except carbon, each once,
in strictly ascending code-point order — the order `sorted()` gives the Hill writer -/
theorem atn_withoutCarbon_is_sorted :
    atnWithoutCarbon.isSome = true ∧
    (atnWithoutCarbon.getD []).all (·.2) = true ∧
    chainLt withoutCarbonOrder = true ∧
    withoutCarbonOrder.all (fun s => elementSyms.contains s && s != ['C']) = true ∧
    (elementSyms.filter (· != ['C'])).all (withoutCarbonOrder.contains ·) = true := by
  decide +kernel

/-- `with_carbon` is C (mandatory), then H, then `without_carbon` minus H, all optional -/
theorem atn_withCarbon_is_hill :
    atnWithCarbon.isSome = true ∧
    (atnWithCarbon.getD []).map (·.2) = false :: List.replicate 117 true ∧
    withCarbonOrder = ['C'] :: ['H'] :: withoutCarbonOrder.filter (· != ['H']) := by
  decide +kernel

/-- the executing parser tables and the grammar source agree on the two formula rules -/
theorem atn_matches_g4 : atnWithCarbon = g4WithCarbon ∧ atnWithoutCarbon = g4WithoutCarbon ∧
    atnElementRulesWellShaped = true := by
  decide +kernel

/-- the shape of every other parser rule, as the model's recogniser assumes it -/
def expectedRuleShapes : List (String × String) := [
  ("tucan", "0:eps>1;1:rule(sum_formula)>2;2:tok('/')>3;3:rule(tuples)>4;4:eps>5,eps>7;5:tok('/')>6;6:rule(node_attributes)>7;7:eps>8;8:tok(EOF)>9;9:eps>10;10:STOP"),
  ("sum_formula_start", "0:eps>1;1:rule(sum_formula)>2;2:tok(EOF)>3;3:eps>4;4:STOP"),
  ("sum_formula", "0:eps>1;1:eps>2,eps>5;2:rule(with_carbon)>3;3:eps>4;4:STOP;5:rule(without_carbon)>3"),
  ("count", "0:eps>1;1:rule(greater_than_one)>2;2:eps>3;3:STOP"),
  ("tuples_start", "0:eps>1;1:rule(tuples)>2;2:tok(EOF)>3;3:eps>4;4:STOP"),
  ("tuples", "0:eps>1;1:eps>2,eps>6;2:eps>3;3:rule(tuple)>4;4:eps>5;5:eps>1;6:eps>7;7:STOP"),
  ("tuple", "0:eps>1;1:tok('(')>2;2:rule(node_index)>3;3:tok('-')>4;4:rule(node_index)>5;5:tok(')')>6;6:eps>7;7:STOP"),
  ("node_index", "0:eps>1;1:rule(greater_than_zero)>2;2:eps>3;3:STOP"),
  ("node_attributes_start", "0:eps>1;1:rule(node_attributes)>2;2:tok(EOF)>3;3:eps>4;4:STOP"),
  ("node_attributes", "0:eps>1;1:eps>2,eps>6;2:eps>3;3:rule(node_attribute)>4;4:eps>5;5:eps>1;6:eps>7;7:STOP"),
  ("node_attribute", "0:eps>1;1:tok('(')>2;2:rule(node_index)>3;3:tok(':')>4;4:rule(node_property)>5;5:eps>6,eps>11;6:eps>7;7:tok(',')>8;8:rule(node_property)>9;9:eps>10;10:eps>5;11:eps>12;12:tok(')')>13;13:eps>14;14:STOP"),
  ("node_property", "0:eps>1;1:rule(node_property_key)>2;2:tok('=')>3;3:rule(node_property_value)>4;4:eps>5;5:STOP"),
  ("node_property_key", "0:eps>1;1:set('mass'|'rad')>2;2:eps>3;3:STOP"),
  ("node_property_value", "0:eps>1;1:rule(greater_than_zero)>2;2:eps>3;3:STOP"),
  ("greater_than_zero", "0:eps>1;1:eps>2,eps>5;2:tok('1')>3;3:eps>4;4:STOP;5:rule(greater_than_one)>3"),
  ("greater_than_one", "0:eps>1;1:set('2'|'3'|'4'|'5'|'6'|'7'|'8'|'9'|type(137))>2;2:eps>3;3:STOP")]

theorem atn_rule_shapes : atnRuleShapes = expectedRuleShapes := by
  decide +kernel

/-- serializer and parser use inverse key maps, on exactly `mass` and `rad` -/
theorem key_maps : serializerKeys = [("mass", "mass"), ("rad", "rad")] ∧
    deserializerKeys = serializerKeys.map fun (a, b) => (b, a) := by
  decide +kernel

/-- the attribute names the model's record fields stand for -/
theorem attribute_names : attributeNames = [
    ("ATOMIC_NUMBER", "atomic_number"), ("CHG", "chg"), ("ELEMENT_SYMBOL", "element_symbol"),
    ("INVARIANT_CODE", "invariant_code"), ("MASS", "mass"), ("PARTITION", "partition"), ("RAD", "rad"),
    ("X_COORD", "x_coord"), ("Y_COORD", "y_coord"), ("Z_COORD", "z_coord"), ("EXPLORED", "explored"),
    ("BOND_TYPE", "bond_type")] := by
  decide +kernel

/-- the V2000 charge codes as the CTfile specification defines them -/
theorem v2000_charge_codes : v2000Charges =
    [(1, some 3, none), (2, some 2, none), (3, some 1, none), (4, none, some 2),
     (5, some (-1), none), (6, some (-2), none), (7, some (-3), none)] := by
  decide +kernel

/-- D and T, and only they, denote hydrogen isotopes -/
theorem hydrogen_isotopes : hydrogenIsotopeSamples =
    [("D", "H", 2), ("T", "H", 3), ("H", "H", 0), ("C", "C", 0), ("d", "d", 0), ("t", "t", 0), ("DD", "DD", 0), ("", "", 0)] := by
  decide +kernel

end Tucan
