import TucanProofs.Lemmas.Sort
import TucanModel.Canon
/-!
# Ranks among the sorted unique sequences (`partition_molecule_by_attribute`'s core)

`ranksOf seqs` gives every sequence its index in `sorted(set(seqs))`.  The rank is a function of the
*multiset* of sequences, injective and strictly monotone on its members, and hits every value below
the number of distinct sequences.
-/
namespace Tucan

/-! ### `dedupAdj` on sorted lists -/

theorem mem_dedupAdj {α} [BEq α] [LawfulBEq α] (a : α) : ∀ l : List α, a ∈ dedupAdj l ↔ a ∈ l
  | [] => by simp [dedupAdj]
  | [b] => by simp [dedupAdj]
  | b :: c :: r => by
    have ih := mem_dedupAdj a (c :: r)
    unfold dedupAdj
    by_cases h : b == c
    · have hbc : b = c := by simpa using h
      simp only [h, if_true, ih]
      subst hbc
      simp
    · simp only [h, Bool.false_eq_true, if_false, List.mem_cons, ih]

theorem dedupAdj_head {α} [BEq α] [LawfulBEq α] (b : α) (r : List α) :
    ∃ t, dedupAdj (b :: r) = b :: t ∨ (∃ c r', r = c :: r' ∧ b = c ∧ dedupAdj (b :: r) = dedupAdj (c :: r')) := by
  cases r with
  | nil => exact ⟨[], Or.inl rfl⟩
  | cons c r' =>
    by_cases h : b == c
    · refine ⟨[], Or.inr ⟨c, r', rfl, by simpa using h, ?_⟩⟩
      simp [dedupAdj, h]
    · exact ⟨dedupAdj (c :: r'), Or.inl (by simp [dedupAdj, h])⟩

/-- on a list that is sorted w.r.t. an antisymmetric `le`, removing adjacent duplicates leaves a
strictly sorted list -/
theorem dedupAdj_strict {α} [BEq α] [LawfulBEq α] (le : α → α → Prop)
    (antisymm : ∀ a b, le a b → le b a → a = b) :
    ∀ l : List α, l.Pairwise le → (dedupAdj l).Pairwise (fun a b => le a b ∧ a ≠ b)
  | [], _ => by simp [dedupAdj]
  | [b], _ => by simp [dedupAdj]
  | b :: c :: r, h => by
    have hc : (c :: r).Pairwise le := (List.pairwise_cons.mp h).2
    have ih := dedupAdj_strict le antisymm (c :: r) hc
    unfold dedupAdj
    by_cases hbc : b == c
    · simp only [hbc, if_true]; exact ih
    · simp only [hbc, Bool.false_eq_true, if_false]
      refine List.pairwise_cons.mpr ⟨?_, ih⟩
      intro x hx
      have hx' : x ∈ c :: r := (mem_dedupAdj x (c :: r)).mp hx
      have hbx : le b x := (List.pairwise_cons.mp h).1 x hx'
      refine ⟨hbx, ?_⟩
      rintro rfl
      have hbc' : b ≠ c := by simpa using hbc
      rcases List.mem_cons.mp hx' with h1 | h1
      · exact hbc' h1
      · have hcb : le c b := (List.pairwise_cons.mp hc).1 b h1
        have hbc2 : le b c := (List.pairwise_cons.mp h).1 c (by simp)
        exact hbc' (antisymm b c hbc2 hcb)

/-! ### `indexOf?` -/

theorem indexOf?_of_mem {α} [BEq α] [LawfulBEq α] (a : α) : ∀ l : List α, a ∈ l → ∃ i, indexOf? a l = some i ∧ i < l.length ∧ l[i]? = some a
  | [], h => by simp at h
  | b :: r, h => by
    unfold indexOf?
    by_cases hab : a == b
    · have : a = b := by simpa using hab
      exact ⟨0, by simp [hab], by simp, by simp [this]⟩
    · have hab' : a ≠ b := by simpa using hab
      have hr : a ∈ r := by
        rcases List.mem_cons.mp h with h | h
        · exact absurd h hab'
        · exact h
      obtain ⟨i, hi, hlt, hget⟩ := indexOf?_of_mem a r hr
      exact ⟨i + 1, by simp [hab, hi], by simp; omega, by simpa using hget⟩

theorem indexOf?_get {α} [BEq α] [LawfulBEq α] (a : α) : ∀ (l : List α) (i : Nat), indexOf? a l = some i → l[i]? = some a
  | [], i, h => by simp [indexOf?] at h
  | b :: r, i, h => by
    unfold indexOf? at h
    by_cases hab : a == b
    · have : a = b := by simpa using hab
      simp [hab] at h; subst h; simp [this]
    · simp only [hab, Bool.false_eq_true, if_false, Option.map_eq_some_iff] at h
      obtain ⟨j, hj, rfl⟩ := h
      simpa using indexOf?_get a r j hj

/-- in a list without duplicates the element at position `i` has index `i` -/
theorem indexOf?_getElem {α} [BEq α] [LawfulBEq α] : ∀ (l : List α) (i : Nat) (h : i < l.length), l.Nodup → indexOf? l[i] l = some i
  | [], i, h, _ => by simp at h
  | b :: r, 0, _, _ => by simp [indexOf?]
  | b :: r, i + 1, h, hn => by
    have hr : r.Nodup := (List.nodup_cons.mp hn).2
    have hb : b ∉ r := (List.nodup_cons.mp hn).1
    have hi : i < r.length := by simpa using h
    have ih := indexOf?_getElem r i hi hr
    have hne : ¬ (r[i] == b) = true := by
      intro h'
      have : r[i] = b := by simpa using h'
      exact hb (this ▸ List.getElem_mem hi)
    simp [indexOf?, hne, ih]

/-! ### ranks -/

/-- `sorted(set(seqs))` -/
def uniqSorted (all : List Seq) : List Seq := dedupAdj (sortS all)

/-- the partition number of a sequence: its index in `sorted(set(seqs))` -/
def rankIn (all : List Seq) (s : Seq) : Nat := (indexOf? s (uniqSorted all)).getD 0

theorem ranksOf_eq (seqs : List Seq) : ranksOf seqs = seqs.map (rankIn seqs) := rfl

/-- S1 for ranks: the rank function depends only on the multiset of sequences -/
theorem uniqSorted_perm {all all' : List Seq} (h : all.Perm all') : uniqSorted all = uniqSorted all' := by
  unfold uniqSorted; rw [sortS_perm_eq h]

theorem rankIn_perm {all all' : List Seq} (h : all.Perm all') : rankIn all = rankIn all' := by
  funext s; unfold rankIn; rw [uniqSorted_perm h]

theorem mem_uniqSorted (all : List Seq) (s : Seq) : s ∈ uniqSorted all ↔ s ∈ all := by
  unfold uniqSorted sortS
  rw [mem_dedupAdj, List.mem_mergeSort]

theorem sortS_pairwise (all : List Seq) : (sortS all).Pairwise (fun a b => a ≤ b) := by
  have := List.pairwise_mergeSort (le := leS) (fun a b c => leS_trans a b c) leS_total all
  simpa [leS, sortS] using this

theorem uniqSorted_strict (all : List Seq) : (uniqSorted all).Pairwise (fun a b => a < b) := by
  have h := dedupAdj_strict (fun (a b : Seq) => a ≤ b) (fun a b => List.le_antisymm) (sortS all) (sortS_pairwise all)
  refine h.imp ?_
  intro a b ⟨hab, hne⟩
  rcases List.le_iff_lt_or_eq.mp hab with h | h
  · exact h
  · exact absurd h hne

theorem uniqSorted_nodup (all : List Seq) : (uniqSorted all).Nodup := by
  have := uniqSorted_strict all
  exact this.imp (fun {a b} h => by rintro rfl; exact List.lt_irrefl a h)

theorem rankIn_spec {all : List Seq} {s : Seq} (h : s ∈ all) :
    rankIn all s < (uniqSorted all).length ∧ (uniqSorted all)[rankIn all s]? = some s := by
  obtain ⟨i, hi, hlt, hget⟩ := indexOf?_of_mem s (uniqSorted all) ((mem_uniqSorted all s).mpr h)
  refine ⟨by simp [rankIn, hi, hlt], by simp only [rankIn, hi, Option.getD_some]; exact hget⟩

theorem rankIn_inj {all : List Seq} {s t : Seq} (hs : s ∈ all) (ht : t ∈ all)
    (h : rankIn all s = rankIn all t) : s = t := by
  have h1 := (rankIn_spec hs).2
  have h2 := (rankIn_spec ht).2
  rw [h] at h1
  exact Option.some.inj (h1.symm.trans h2)

theorem rankIn_surj {all : List Seq} {k : Nat} (hk : k < (uniqSorted all).length) :
    ∃ s ∈ all, rankIn all s = k := by
  refine ⟨(uniqSorted all)[k], (mem_uniqSorted all _).mp (List.getElem_mem hk), ?_⟩
  have := indexOf?_getElem (uniqSorted all) k hk (uniqSorted_nodup all)
  simp [rankIn, this]

/-- the rank is strictly monotone: a smaller sequence gets a smaller partition number -/
theorem rankIn_lt_of_lt {all : List Seq} {s t : Seq} (hs : s ∈ all) (ht : t ∈ all) (h : s < t) :
    rankIn all s < rankIn all t := by
  obtain ⟨hi, hgi⟩ := rankIn_spec hs
  obtain ⟨hj, hgj⟩ := rankIn_spec ht
  have hp := (List.pairwise_iff_getElem.mp (uniqSorted_strict all))
  rcases Nat.lt_trichotomy (rankIn all s) (rankIn all t) with hlt | heq | hgt
  · exact hlt
  · have := rankIn_inj hs ht heq; subst this; exact absurd h (List.lt_irrefl s)
  · have := hp (rankIn all t) (rankIn all s) hj hi hgt
    have e1 : (uniqSorted all)[rankIn all t] = t := by
      have := List.getElem?_eq_getElem hj; rw [this] at hgj; exact Option.some.inj hgj
    have e2 : (uniqSorted all)[rankIn all s] = s := by
      have := List.getElem?_eq_getElem hi; rw [this] at hgi; exact Option.some.inj hgi
    rw [e1, e2] at this
    exact absurd h (List.lt_asymm this)

end Tucan
