import TucanProofs.Lemmas.Refine
import TucanProofs.Lemmas.NxRelabel
/-!
# The final partition is equitable; classes determine identity; the refinement terminates

All graphs inside the refinement loop are outputs of `partition_molecule_by_attribute`, so their
classes are *dense* (exactly the numbers `0 … k-1`).  A refinement step never merges classes (the own
class is the first component of the sequence); when the class count does not grow the step did not
split any class either, so the partition is stable: atoms of one class see the same multiset of
neighbour classes.
-/
namespace Tucan
open NxRelabel

/-- every node has a class and the classes are exactly `0 … k-1` for some `k` -/
def Dense (g : Graph) : Prop :=
  (∀ a ∈ g.labels, (partOf? g a).isSome) ∧
  ∃ k : Nat, ∀ p : Int, (∃ a ∈ g.labels, partOf? g a = some p) ↔ (0 ≤ p ∧ p < (k : Int))

/-- atoms of one class see the same multiset of neighbour classes -/
def Equitable (r : Graph) : Prop :=
  ∀ a ∈ r.labels, ∀ b ∈ r.labels, partOf? r a = partOf? r b →
    sortKDesc ((r.nbrs a).map (keyD r .partition)) = sortKDesc ((r.nbrs b).map (keyD r .partition))

/-- atoms of one class have the same invariant code (element, mass, radical) -/
def ClassesRespectIdent (r : Graph) : Prop :=
  ∀ a ∈ r.labels, ∀ b ∈ r.labels, partOf? r a = partOf? r b → keyD r .invariantCode a = keyD r .invariantCode b

/-! ### auxiliary facts -/
namespace EqAux

/-- `Dense` with the number of classes exposed -/
def DenseK (g : Graph) (k : Nat) : Prop :=
  (∀ a ∈ g.labels, (partOf? g a).isSome) ∧
  ∀ p : Int, (∃ a ∈ g.labels, partOf? g a = some p) ↔ (0 ≤ p ∧ p < (k : Int))

theorem dense_iff (g : Graph) : Dense g ↔ ∃ k, DenseK g k := by
  unfold Dense DenseK
  constructor
  · rintro ⟨h1, k, h2⟩; exact ⟨k, h1, h2⟩
  · rintro ⟨k, h1, h2⟩; exact ⟨h1, k, h2⟩

theorem keyD_partition (g : Graph) (a : Nat) :
    keyD g .partition a = ((partOf? g a).map ([·])).getD [] := by
  unfold keyD partOf?
  cases g.attrs? a with
  | none => rfl
  | some x => simp [Atom.key]

theorem keyD_partition_some {g : Graph} {a : Nat} {p : Int} (h : partOf? g a = some p) :
    keyD g .partition a = [p] := by
  rw [keyD_partition, h]; rfl

theorem partOf?_eq_of_keyD {g : Graph} {a b : Nat} (ha : (partOf? g a).isSome) (hb : (partOf? g b).isSome)
    (h : keyD g .partition a = keyD g .partition b) : partOf? g a = partOf? g b := by
  obtain ⟨p, hp⟩ := Option.isSome_iff_exists.mp ha
  obtain ⟨q, hq⟩ := Option.isSome_iff_exists.mp hb
  rw [keyD_partition_some hp, keyD_partition_some hq] at h
  rw [hp, hq]
  simpa using h

theorem keyD_eq_of_partOf? {g : Graph} {a b : Nat} (h : partOf? g a = partOf? g b) :
    keyD g .partition a = keyD g .partition b := by
  rw [keyD_partition, keyD_partition, h]

/-- what one partition step does, in the vocabulary of this file -/
structure StepFacts (g : Graph) (attr : AttrName) (h : Graph) : Prop where
  labels : h.labels = g.labels
  wf : h.WF
  simple : h.Simple
  part : ∀ a ∈ g.labels, partOf? h a = some (classOf g attr a : Int)
  inv : ∀ a ∈ g.labels, keyD h .invariantCode a = keyD g .invariantCode a
  nbrs : ∀ a ∈ g.labels, (h.nbrs a).Perm (g.nbrs a)

theorem stepFacts (hc : CopySpec) (hm : MapAttrsSpec) {g : Graph} {attr : AttrName} (hw : g.WF)
    (hs : g.Simple) {h : Graph} (hp : partitionMoleculeByAttribute g attr = .ok h) : StepFacts g attr h := by
  obtain ⟨hl, hhw, hhs, ha, hn⟩ := partition_spec hc hm g attr hw hs h hp
  refine ⟨hl, hhw, hhs, ?_, ?_, ?_⟩
  · intro a hal
    obtain ⟨t, ht⟩ := attrs?_isSome_of_mem hal
    have := ha a hal
    rw [ht] at this
    simp [partOf?, this]
  · intro a hal
    obtain ⟨t, ht⟩ := attrs?_isSome_of_mem hal
    have := ha a hal
    rw [ht] at this
    simp [keyD, this, ht, Atom.key]
  · intro a hal
    rw [Graph.nbrs_eq_nbrsD h, Graph.nbrs_eq_nbrsD g]
    exact (hn a hal).map _

theorem seq_mem {g : Graph} {attr : AttrName} {a : Nat} (ha : a ∈ g.labels) :
    seqOf g attr a ∈ g.labels.map (seqOf g attr) := List.mem_map.mpr ⟨a, ha, rfl⟩

theorem step_seq_eq {g : Graph} {attr : AttrName} {h : Graph} (sf : StepFacts g attr h) {a b : Nat}
    (ha : a ∈ g.labels) (hb : b ∈ g.labels) (e : partOf? h a = partOf? h b) :
    seqOf g attr a = seqOf g attr b := by
  rw [sf.part a ha, sf.part b hb] at e
  have : classOf g attr a = classOf g attr b := by
    injection e with e; exact Int.ofNat.inj e
  exact rankIn_inj (seq_mem ha) (seq_mem hb) this

theorem step_denseK {g : Graph} {attr : AttrName} {h : Graph} (sf : StepFacts g attr h) :
    DenseK h (uniqSorted (g.labels.map (seqOf g attr))).length := by
  refine ⟨?_, ?_⟩
  · intro a ha
    rw [sf.labels] at ha
    rw [sf.part a ha]; rfl
  · intro p
    rw [sf.labels]
    constructor
    · rintro ⟨a, ha, hpa⟩
      rw [sf.part a ha] at hpa
      injection hpa with hpa
      have := (rankIn_spec (seq_mem (attr := attr) ha)).1
      unfold classOf at hpa
      omega
    · rintro ⟨h0, hlt⟩
      have hk : p.toNat < (uniqSorted (g.labels.map (seqOf g attr))).length := by omega
      obtain ⟨s, hs, hr⟩ := rankIn_surj hk
      obtain ⟨a, ha, rfl⟩ := List.mem_map.mp hs
      refine ⟨a, ha, ?_⟩
      rw [sf.part a ha]
      unfold classOf
      rw [hr]
      congr 1
      omega

/-! ### pigeonhole on lists -/

theorem nodup_subset_length_le {α} [DecidableEq α] : ∀ (l₁ l₂ : List α), l₁.Nodup → l₁ ⊆ l₂ →
    l₁.length ≤ l₂.length
  | [], _, _, _ => Nat.zero_le _
  | a :: t, l₂, hn, hsub => by
    have ha : a ∈ l₂ := hsub List.mem_cons_self
    obtain ⟨hat, hnt⟩ := List.nodup_cons.mp hn
    have hsub' : t ⊆ l₂.erase a := by
      intro x hx
      have hxa : x ≠ a := fun e => hat (e ▸ hx)
      exact (List.mem_erase_of_ne hxa).mpr (hsub (List.mem_cons_of_mem _ hx))
    have ih := nodup_subset_length_le t (l₂.erase a) hnt hsub'
    have hl := List.length_erase_of_mem ha
    have hpos : 0 < l₂.length := List.length_pos_of_mem ha
    simp only [List.length_cons]
    omega

theorem nodup_of_subset_length_le {α} [DecidableEq α] : ∀ (l₁ l₂ : List α), l₁.Nodup → l₁ ⊆ l₂ →
    l₂.length ≤ l₁.length → l₂.Nodup
  | [], l₂, _, _, hl => by
    have : l₂ = [] := List.eq_nil_of_length_eq_zero (by simpa using hl)
    subst this; exact List.nodup_nil
  | a :: t, l₂, hn, hsub, hl => by
    have ha : a ∈ l₂ := hsub List.mem_cons_self
    obtain ⟨hat, hnt⟩ := List.nodup_cons.mp hn
    have hsub' : t ⊆ l₂.erase a := by
      intro x hx
      have hxa : x ≠ a := fun e => hat (e ▸ hx)
      exact (List.mem_erase_of_ne hxa).mpr (hsub (List.mem_cons_of_mem _ hx))
    have hle := List.length_erase_of_mem ha
    have hpos : 0 < l₂.length := List.length_pos_of_mem ha
    simp only [List.length_cons] at hl
    have ih := nodup_of_subset_length_le t (l₂.erase a) hnt hsub' (by omega)
    have hna : a ∉ l₂.erase a := by
      intro hmem
      have hsub2 : a :: t ⊆ l₂.erase a := by
        intro x hx
        rcases List.mem_cons.mp hx with rfl | hx
        · exact hmem
        · exact hsub' hx
      have := nodup_subset_length_le (a :: t) (l₂.erase a) hn hsub2
      simp only [List.length_cons] at this
      omega
    exact (List.perm_cons_erase ha).nodup_iff.mpr (List.nodup_cons.mpr ⟨hna, ih⟩)

theorem inj_of_nodup_map {α β} (f : α → β) : ∀ (l : List α), (l.map f).Nodup →
    ∀ x ∈ l, ∀ y ∈ l, f x = f y → x = y
  | [], _, x, hx, _, _, _ => by simp at hx
  | c :: l, hn, x, hx, y, hy, e => by
    simp only [List.map_cons, List.nodup_cons, List.mem_map, not_exists, not_and] at hn
    rcases List.mem_cons.mp hx with hxc | hx
    · rcases List.mem_cons.mp hy with hyc | hy
      · rw [hxc, hyc]
      · rw [hxc] at e; exact absurd e.symm (hn.1 y hy)
    · rcases List.mem_cons.mp hy with hyc | hy
      · rw [hyc] at e; exact absurd e (hn.1 x hx)
      · exact inj_of_nodup_map f l hn.2 x hx y hy e

/-! ### the old classes versus the new sequences -/

/-- first component of an attribute sequence -/
def hd (s : Seq) : Key := s.headD []

theorem hd_seqOf (g : Graph) (attr : AttrName) (a : Nat) : hd (seqOf g attr a) = keyD g attr a := rfl

/-- the keys `[0], …, [k-1]` -/
def classKeys (k : Nat) : List Key := (List.range k).map fun (i : Nat) => [(i : Int)]

theorem classKeys_nodup (k : Nat) : (classKeys k).Nodup := by
  refine nodup_map_of_injOn _ List.nodup_range ?_
  intro a _ b _ h
  have : (a : Int) = (b : Int) := by simpa using h
  omega

theorem classKeys_length (k : Nat) : (classKeys k).length = k := by simp [classKeys]

theorem classKeys_subset {g : Graph} {k : Nat} (hd0 : DenseK g k) :
    classKeys k ⊆ (uniqSorted (g.labels.map (seqOf g .partition))).map hd := by
  intro κ hκ
  obtain ⟨i, hi, rfl⟩ := List.mem_map.mp hκ
  have hi' : i < k := List.mem_range.mp hi
  obtain ⟨a, ha, hpa⟩ := (hd0.2 (i : Int)).mpr ⟨by omega, by omega⟩
  refine List.mem_map.mpr ⟨seqOf g .partition a, (mem_uniqSorted _ _).mpr (seq_mem ha), ?_⟩
  rw [hd_seqOf, keyD_partition_some hpa]

/-- a refinement step never decreases the number of classes -/
theorem classes_le {g : Graph} {k : Nat} (hd0 : DenseK g k) :
    k ≤ (uniqSorted (g.labels.map (seqOf g .partition))).length := by
  have := nodup_subset_length_le _ _ (classKeys_nodup k) (classKeys_subset hd0)
  simpa [classKeys_length] using this

/-- … and never produces more classes than nodes -/
theorem classes_le_nodes (g : Graph) (attr : AttrName) :
    (uniqSorted (g.labels.map (seqOf g attr))).length ≤ g.numberOfNodes := by
  have := nodup_subset_length_le _ (g.labels.map (seqOf g attr)) (uniqSorted_nodup _)
    (fun s hs => (mem_uniqSorted _ s).mp hs)
  simpa [Graph.labels, Graph.numberOfNodes] using this

/-- if the number of classes did not grow, no class was split -/
theorem seq_eq_of_same_class {g : Graph} {k : Nat} (hd0 : DenseK g k)
    (hk : (uniqSorted (g.labels.map (seqOf g .partition))).length = k) {a b : Nat}
    (ha : a ∈ g.labels) (hb : b ∈ g.labels) (e : partOf? g a = partOf? g b) :
    seqOf g .partition a = seqOf g .partition b := by
  have hn : ((uniqSorted (g.labels.map (seqOf g .partition))).map hd).Nodup :=
    nodup_of_subset_length_le _ _ (classKeys_nodup k) (classKeys_subset hd0)
      (by simp [classKeys_length, hk])
  refine inj_of_nodup_map hd _ hn _ ((mem_uniqSorted _ _).mpr (seq_mem ha)) _
    ((mem_uniqSorted _ _).mpr (seq_mem hb)) ?_
  rw [hd_seqOf, hd_seqOf]
  exact keyD_eq_of_partOf? e

/-! ### `get_number_of_partitions` on a dense graph -/

theorem gnp_of_denseK {g : Graph} {k : Nat} {m : Int} (hw : g.WF) (hd0 : DenseK g k)
    (h : getNumberOfPartitions g = .ok m) : 1 ≤ k ∧ m = (k : Int) - 1 := by
  rw [getNumberOfPartitions_eq, parts_eq_labels g hw] at h
  cases hl : g.labels.filterMap (partOf? g) with
  | nil => simp [hl, maxOf] at h
  | cons p ps =>
    simp only [hl, maxOf] at h
    injection h with h
    obtain ⟨h1, h2⟩ := foldl_max_spec ps p
    rw [h, ← hl] at h1
    rw [h, ← hl] at h2
    obtain ⟨a, ha, hpa⟩ := List.mem_filterMap.mp h1
    have hb := (hd0.2 m).mp ⟨a, ha, hpa⟩
    have hk : 1 ≤ k := by omega
    obtain ⟨c, hc, hpc⟩ := (hd0.2 ((k : Int) - 1)).mpr ⟨by omega, by omega⟩
    have := h2 _ (List.mem_filterMap.mpr ⟨c, hc, hpc⟩)
    exact ⟨hk, by omega⟩

/-! ### one refinement round -/

/-- the new partition refines the old one -/
theorem step_refines {g h : Graph} {k : Nat} (hd0 : DenseK g k) (sf : StepFacts g .partition h) {a b : Nat}
    (ha : a ∈ g.labels) (hb : b ∈ g.labels) (e : partOf? h a = partOf? h b) : partOf? g a = partOf? g b := by
  have := congrArg hd (step_seq_eq sf ha hb e)
  rw [hd_seqOf, hd_seqOf] at this
  exact partOf?_eq_of_keyD (hd0.1 a ha) (hd0.1 b hb) this

theorem step_cri {g h : Graph} {k : Nat} (hd0 : DenseK g k) (sf : StepFacts g .partition h) :
    ClassesRespectIdent g → ClassesRespectIdent h := by
  intro hcri a ha b hb e
  rw [sf.labels] at ha hb
  rw [sf.inv a ha, sf.inv b hb]
  exact hcri a ha b hb (step_refines hd0 sf ha hb e)

/-- translation of old class keys into new class keys (meaningful when no class was split) -/
def transl (g h : Graph) (κ : Key) : Key :=
  match g.labels.find? (fun c => keyD g .partition c == κ) with
  | some c => keyD h .partition c
  | none => []

theorem transl_spec {g h : Graph} {k : Nat} (hd0 : DenseK g k) (sf : StepFacts g .partition h)
    (hk : (uniqSorted (g.labels.map (seqOf g .partition))).length = k) {c : Nat} (hc : c ∈ g.labels) :
    keyD h .partition c = transl g h (keyD g .partition c) := by
  unfold transl
  cases hf : g.labels.find? (fun c' => keyD g .partition c' == keyD g .partition c) with
  | none =>
    have := List.find?_eq_none.mp hf c hc
    simp at this
  | some c' =>
    have hc' : c' ∈ g.labels := List.mem_of_find?_eq_some hf
    have hk' : keyD g .partition c' = keyD g .partition c := by simpa using List.find?_some hf
    have hpp : partOf? g c' = partOf? g c := partOf?_eq_of_keyD (hd0.1 c' hc') (hd0.1 c hc) hk'
    have hseq := seq_eq_of_same_class hd0 hk hc' hc hpp
    have e1 : keyD h .partition c = [(classOf g .partition c : Int)] := keyD_partition_some (sf.part c hc)
    have e2 : keyD h .partition c' = [(classOf g .partition c' : Int)] := keyD_partition_some (sf.part c' hc')
    have e3 : classOf g .partition c' = classOf g .partition c := by unfold classOf; rw [hseq]
    show keyD h .partition c = keyD h .partition c'
    rw [e1, e2, e3]

/-- a round that does not increase the number of classes yields an equitable partition -/
theorem step_equitable {g h : Graph} {k : Nat} (hw : g.WF) (hd0 : DenseK g k) (sf : StepFacts g .partition h)
    (hk : (uniqSorted (g.labels.map (seqOf g .partition))).length = k) : Equitable h := by
  intro a ha b hb e
  rw [sf.labels] at ha hb
  have hseq := step_seq_eq sf ha hb e
  unfold seqOf at hseq
  have hsort := (List.cons.inj hseq).2
  unfold sortKDesc at hsort
  have p1 := List.mergeSort_perm ((g.nbrs a).map (keyD g .partition)) geK
  have p2 := List.mergeSort_perm ((g.nbrs b).map (keyD g .partition)) geK
  rw [hsort] at p1
  have hperm : ((g.nbrs a).map (keyD g .partition)).Perm ((g.nbrs b).map (keyD g .partition)) := p1.symm.trans p2
  have hmap : ∀ x ∈ g.labels, ((h.nbrs x).map (keyD h .partition)).Perm
      (((g.nbrs x).map (keyD g .partition)).map (transl g h)) := by
    intro x hx
    refine ((sf.nbrs x hx).map _).trans ?_
    rw [List.map_map]
    exact List.Perm.of_eq (List.map_congr_left fun c hc => transl_spec hd0 sf hk (Graph.nbrs_closed hw hc))
  apply sortKDesc_perm_eq
  exact (hmap a ha).trans ((hperm.map _).trans (hmap b hb).symm)

theorem refineLoop_aux (hc : CopySpec) (hm : MapAttrsSpec) :
    ∀ (fuel : Nat) (g : Graph) (k : Nat) (r : Graph) (n : Nat) (k0 : Nat), g.WF → g.Simple → DenseK g k0 →
      refineLoop fuel g k = .ok (r, n) →
      Equitable r ∧ Dense r ∧ r.WF ∧ r.Simple ∧ r.labels = g.labels ∧
      (ClassesRespectIdent g → ClassesRespectIdent r)
  | 0, g, k, r, n, k0, _, _, _, h => by simp [refineLoop] at h
  | fuel + 1, g, k, r, n, k0, hw, hs, hd0, h => by
    unfold refineLoop at h
    cases hp : partitionMoleculeByAttribute g .partition with
    | error e => simp [hp, bind, Except.bind] at h
    | ok p =>
      have sf := stepFacts hc hm hw hs hp
      have hd1 := step_denseK sf
      simp only [hp, bind, Except.bind] at h
      cases hn1 : getNumberOfPartitions p with
      | error e => simp [hn1] at h
      | ok n1 =>
        cases hn0 : getNumberOfPartitions g with
        | error e => simp [hn1, hn0] at h
        | ok n0 =>
          simp only [hn1, hn0] at h
          by_cases hEq : n1 == n0
          · simp only [hEq, if_true, pure, Except.pure] at h
            injection h with h
            injection h with ha hb
            subst ha
            obtain ⟨_, e1⟩ := gnp_of_denseK sf.wf hd1 hn1
            obtain ⟨_, e0⟩ := gnp_of_denseK hw hd0 hn0
            have hne : n1 = n0 := by simpa using hEq
            have hk : (uniqSorted (g.labels.map (seqOf g .partition))).length = k0 := by omega
            exact ⟨step_equitable hw hd0 sf hk, (dense_iff _).mpr ⟨_, hd1⟩, sf.wf, sf.simple, sf.labels,
              step_cri hd0 sf⟩
          · simp only [hEq, Bool.false_eq_true, if_false] at h
            obtain ⟨a1, a2, a3, a4, a5, a6⟩ :=
              refineLoop_aux hc hm fuel p (k + 1) r n _ sf.wf sf.simple hd1 h
            exact ⟨a1, a2, a3, a4, a5.trans sf.labels, fun hcri => a6 (step_cri hd0 sf hcri)⟩

/-! ### every call inside the loop returns -/

theorem mapM_ok_of_forall {α β} (f : α → PyM β) : ∀ (l : List α), (∀ x ∈ l, ∃ y, f x = .ok y) →
    ∃ r, l.mapM f = .ok r
  | [], _ => ⟨[], by simp [List.mapM_nil, pure, Except.pure]⟩
  | a :: l, h => by
    obtain ⟨y, hy⟩ := h a (by simp)
    obtain ⟨r, hr⟩ := mapM_ok_of_forall f l (fun x hx => h x (by simp [hx]))
    exact ⟨y :: r, by rw [List.mapM_cons]; simp [hy, hr, bind, Except.bind, pure, Except.pure]⟩

theorem attributeSequence_total {g : Graph} (hw : g.WF) (hall : ∀ a ∈ g.labels, (partOf? g a).isSome)
    {a : Nat} (ha : a ∈ g.labels) : ∃ s, attributeSequence g a .partition = .ok s := by
  have key : ∀ b ∈ g.labels, ∃ x κ, g.attrs b = .ok x ∧ x.key .partition = some κ := by
    intro b hb
    cases hf : g.find? b with
    | none => exact absurd hb (find?_eq_none_iff.mp hf)
    | some n =>
      have hp := hall b hb
      simp only [partOf?, Graph.attrs?, hf, Option.map_some, Option.bind_some] at hp
      obtain ⟨q, hq⟩ := Option.isSome_iff_exists.mp hp
      exact ⟨n.attrs, [q], by simp [Graph.attrs, hf], by simp [Atom.key, hq]⟩
  obtain ⟨x, κ, hx, hκ⟩ := key a ha
  have hnb : g.neighbors a = .ok (g.nbrs a) := by
    unfold Graph.neighbors Graph.nbrs
    cases hf : g.find? a with
    | none => exact absurd ha (find?_eq_none_iff.mp hf)
    | some n => rfl
  obtain ⟨nk, hnk⟩ := mapM_ok_of_forall
    (fun n => do let an ← g.attrs n; (an.key .partition).elim (.error .keyError) .ok) (g.nbrs a) (by
      intro n hn
      obtain ⟨y, κ', hy, hκ'⟩ := key n (Graph.nbrs_closed hw hn)
      exact ⟨κ', by simp [hy, hκ', bind, Except.bind]⟩)
  refine ⟨κ :: sortKDesc nk, ?_⟩
  unfold attributeSequence
  simp only [hx, hκ, hnb, bind, Except.bind, Option.elim_some]
  simp only [bind, Except.bind] at hnk
  rw [hnk]
  rfl

theorem partition_total {g : Graph} (hw : g.WF) (hall : ∀ a ∈ g.labels, (partOf? g a).isSome) :
    ∃ h, partitionMoleculeByAttribute g .partition = .ok h := by
  obtain ⟨seqs, hseqs⟩ := mapM_ok_of_forall (fun a => attributeSequence g a .partition) g.labels
    (fun a ha => attributeSequence_total hw hall ha)
  unfold partitionMoleculeByAttribute
  simp only [hseqs, bind, Except.bind, pure, Except.pure]
  exact ⟨_, rfl⟩

theorem gnp_total {g : Graph} (hw : g.WF) (hall : ∀ a ∈ g.labels, (partOf? g a).isSome)
    (hne : g.labels ≠ []) : ∃ m, getNumberOfPartitions g = .ok m := by
  rw [getNumberOfPartitions_eq, parts_eq_labels g hw]
  cases hl : g.labels.filterMap (partOf? g) with
  | nil =>
    exfalso
    cases hlab : g.labels with
    | nil => exact hne hlab
    | cons a t =>
      have ha : a ∈ g.labels := by rw [hlab]; simp
      obtain ⟨q, hq⟩ := Option.isSome_iff_exists.mp (hall a ha)
      have : q ∈ g.labels.filterMap (partOf? g) := List.mem_filterMap.mpr ⟨a, ha, hq⟩
      rw [hl] at this
      simp at this
  | cons p ps => exact ⟨_, rfl⟩

/-- the loop needs at most `n - k0 + 1` rounds, `k0` the current number of classes -/
theorem refineLoop_total (hc : CopySpec) (hm : MapAttrsSpec) :
    ∀ (fuel : Nat) (g : Graph) (k k0 : Nat), g.WF → g.Simple → DenseK g k0 → g.labels ≠ [] →
      g.numberOfNodes - k0 + 1 ≤ fuel →
      ∃ r m, refineLoop fuel g k = .ok (r, m) ∧ m ≤ k + (g.numberOfNodes - k0 + 1)
  | 0, _, _, _, _, _, _, _, hf => by omega
  | fuel + 1, g, k, k0, hw, hs, hd0, hne, hf => by
    obtain ⟨p, hp⟩ := partition_total hw hd0.1
    have sf := stepFacts hc hm hw hs hp
    have hd1 := step_denseK sf
    have hnep : p.labels ≠ [] := by rw [sf.labels]; exact hne
    obtain ⟨n1, hn1⟩ := gnp_total sf.wf hd1.1 hnep
    obtain ⟨n0, hn0⟩ := gnp_total hw hd0.1 hne
    obtain ⟨h1, e1⟩ := gnp_of_denseK sf.wf hd1 hn1
    obtain ⟨h0, e0⟩ := gnp_of_denseK hw hd0 hn0
    have hle := classes_le hd0
    have hlen := classes_le_nodes g .partition
    have hnodes : p.numberOfNodes = g.numberOfNodes := by
      have := congrArg List.length sf.labels
      simpa [Graph.labels, Graph.numberOfNodes] using this
    unfold refineLoop
    simp only [hp, hn1, hn0, bind, Except.bind]
    by_cases hEq : n1 == n0
    · simp only [hEq, if_true, pure, Except.pure]
      exact ⟨p, k + 1, rfl, by omega⟩
    · simp only [hEq, Bool.false_eq_true, if_false]
      have hne' : n1 ≠ n0 := by simpa using hEq
      obtain ⟨r, m, hr, hm'⟩ := refineLoop_total hc hm fuel p (k + 1) _ sf.wf sf.simple hd1 hnep
        (by rw [hnodes]; omega)
      exact ⟨r, m, hr, by rw [hnodes] at hm'; omega⟩

end EqAux
open EqAux

/-- the output of a partition step has dense classes -/
theorem partition_dense (hc : CopySpec) (hm : MapAttrsSpec) (g : Graph) (attr : AttrName) (hw : g.WF)
    (hs : g.Simple) (hne : g.labels ≠ []) (h : Graph) (hp : partitionMoleculeByAttribute g attr = .ok h) :
    Dense h := by
  have _ := hne
  exact (dense_iff h).mpr ⟨_, step_denseK (stepFacts hc hm hw hs hp)⟩

/-- the first partition (by invariant code) puts only atoms of equal invariant code into one class -/
theorem partition_inv_respects (hc : CopySpec) (hm : MapAttrsSpec) (g : Graph) (hw : g.WF) (hs : g.Simple)
    (h : Graph) (hp : partitionMoleculeByAttribute g .invariantCode = .ok h) : ClassesRespectIdent h := by
  have sf := stepFacts hc hm hw hs hp
  intro a ha b hb e
  rw [sf.labels] at ha hb
  rw [sf.inv a ha, sf.inv b hb]
  have := step_seq_eq sf ha hb e
  unfold seqOf at this
  exact (List.cons.inj this).1

/-- the result of the refinement loop is equitable, dense, and still respects identity -/
theorem refineLoop_equitable (hc : CopySpec) (hm : MapAttrsSpec) :
    ∀ (fuel : Nat) (g : Graph) (k : Nat) (r : Graph) (n : Nat), g.WF → g.Simple → Dense g →
      refineLoop fuel g k = .ok (r, n) →
      Equitable r ∧ Dense r ∧ r.WF ∧ r.Simple ∧ r.labels = g.labels ∧
      (ClassesRespectIdent g → ClassesRespectIdent r) := by
  intro fuel g k r n hw hs hd h
  obtain ⟨k0, hd0⟩ := (dense_iff g).mp hd
  exact refineLoop_aux hc hm fuel g k r n k0 hw hs hd0 h

/-- with `n + 1` rounds of fuel the loop never runs out of fuel: on a non-empty well-formed graph with
dense classes whose every node carries a partition, `refine_partitions` returns -/
theorem refinePartitions_ok (hc : CopySpec) (hm : MapAttrsSpec) (g : Graph) (hw : g.WF) (hs : g.Simple)
    (hd : Dense g) (hne : g.labels ≠ []) : ∃ r n, refinePartitions g = .ok (r, n) ∧ n ≤ g.numberOfNodes := by
  obtain ⟨k0, hd0⟩ := (dense_iff g).mp hd
  have hk0 : 1 ≤ k0 ∧ 1 ≤ g.numberOfNodes := by
    cases hlab : g.labels with
    | nil => exact absurd hlab hne
    | cons a t =>
      have ha : a ∈ g.labels := by rw [hlab]; simp
      obtain ⟨q, hq⟩ := Option.isSome_iff_exists.mp (hd0.1 a ha)
      have := (hd0.2 q).mp ⟨a, ha, hq⟩
      have hlen := congrArg List.length hlab
      simp [Graph.labels] at hlen
      refine ⟨by omega, by unfold Graph.numberOfNodes; omega⟩
  unfold refinePartitions
  obtain ⟨r, m, hr, hm'⟩ := refineLoop_total hc hm (g.numberOfNodes + 1) g 0 k0 hw hs hd0 hne (by omega)
  exact ⟨r, m, hr, by omega⟩

end Tucan
