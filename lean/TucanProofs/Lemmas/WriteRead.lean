import TucanProofs.Lemmas.LineMachinery
import TucanProofs.Lemmas.SpliceAny
import TucanProofs.Lemmas.GraphFromMolecule
/-!
# C09 (model level) — the molfile written for a graph reads back as the same molecule

`graphToMolfileLines g hdr` is the model of `graph_to_molfile` (as a list of lines; `hdr` stands for the
time-stamped header line), `graphFromMolfileText` the model of `graph_from_molfile_text`.  For a graph with
consecutive labels whose attributes are in the format's ranges — any atom count, any index width,
coordinate tokens of any length, so atom and bond lines of any length that are wrapped once or several
times — reading the written text returns the same atoms in the same order with the same element,
charge, radical, isotope mass and coordinate tokens, and the same bonds with the same bond types.
-/
namespace Tucan

/-- the text of a molfile: its lines joined by `\n` -/
def joinLines (lines : List Str) : Str := joinWith ['\n'] lines

/-- an atom the V3000 format can carry faithfully -/
structure WritableAtom (n : Node) : Prop where
  sym : ∃ s, n.attrs.sym = some s ∧ s ∈ elementSyms
  coords : ∀ t ∈ [n.attrs.x.getD zeroCoord, n.attrs.y.getD zeroCoord, n.attrs.zc.getD zeroCoord],
    IsToken t ∧ pyFloatOk t = true ∧ endsWithChar t '-' = false
  chg : ∀ c, n.attrs.chg = some c → c ≠ 0 ∧ -15 ≤ c ∧ c ≤ 15
  rad : ∀ r, n.attrs.rad = some r → 0 < r ∧ r ≤ 3
  mass : ∀ m, n.attrs.mass = some m → 0 < m ∧ (intRepr m).length ≤ intMaxStrDigits

/-- what the reader returns for a written atom: the fields the format carries (plus `partition = 0` and
the invariant code `graph_from_molecule` adds) -/
def readBackAtom (a : Atom) (z : Int) : Atom :=
  { sym := a.sym, z := some z, part := some 0,
    x := some (a.x.getD zeroCoord), y := some (a.y.getD zeroCoord), zc := some (a.zc.getD zeroCoord),
    chg := a.chg, rad := a.rad, mass := a.mass,
    inv := some [z, a.mass.getD 0, a.rad.getD 0] }

/-- a header line: one line, not a `M  V30 ` line -/
def GoodHeader (hdr : Str) : Prop := (∀ c ∈ hdr, isLineBreak c = false) ∧ startsWith hdr v30Prefix = false

namespace WR
open LineM

/-! ## §1 `splitLines ∘ joinLines` -/

/-- no character of the text ends a line -/
def NoBreak (l : Str) : Prop := ∀ c ∈ l, isLineBreak c = false

theorem isLineBreak_isPySpace {c : Char} (h : isLineBreak c = true) : isPySpace c = true := by
  simp only [isLineBreak, Bool.or_eq_true, beq_iff_eq, Bool.and_eq_true, decide_eq_true_eq] at h
  simp only [isPySpace, isUniSpace, Bool.or_eq_true, beq_iff_eq, Bool.and_eq_true, decide_eq_true_eq]
  rcases h with (((((((h | h) | h) | h) | h) | h) | h) | h)
  · exact Or.inl (Or.inl (Or.inl (Or.inl (Or.inl (Or.inr h)))))
  · exact Or.inl (Or.inl (Or.inl (Or.inl (Or.inr h))))
  · exact Or.inl (Or.inl (Or.inl (Or.inr h)))
  · exact Or.inl (Or.inl (Or.inr h))
  · exact Or.inl (Or.inr ⟨h.1, by omega⟩)
  · exact Or.inr (by simp [h])
  · exact Or.inr (by simp [h])
  · exact Or.inr (by simp [h])

theorem noBreak_of_noSpace {c : Char} (h : isPySpace c = false) : isLineBreak c = false := by
  cases hb : isLineBreak c with
  | false => rfl
  | true => rw [isLineBreak_isPySpace hb] at h; cases h

theorem splitLinesGo_line : ∀ (l : Str), NoBreak l → ∀ (cur : Str) (acc : List Str) (rest : Str),
    splitLinesGo cur acc false (l ++ rest) = splitLinesGo (l.reverse ++ cur) acc false rest := by
  intro l
  induction l with
  | nil => intro _ cur acc rest; rfl
  | cons c r ih =>
    intro h cur acc rest
    have hc : isLineBreak c = false := h c (by simp)
    have hr : (c == '\r') = false := by
      cases hcr : c == '\r' with
      | false => rfl
      | true =>
        have : c = '\r' := by simpa using hcr
        subst this
        revert hc; decide
    rw [List.cons_append, splitLinesGo]
    simp only [Bool.false_and, Bool.false_eq_true, if_false, hr, hc]
    rw [ih (fun x hx => h x (by simp [hx]))]
    simp

theorem splitLinesGo_join : ∀ (lines : List Str), lines ≠ [] → (∀ l ∈ lines, NoBreak l) →
    lines.getLast? ≠ some [] → ∀ (acc : List Str),
    splitLinesGo [] acc false (joinWith ['\n'] lines) = acc.reverse ++ lines := by
  intro lines
  induction lines with
  | nil => intro h; exact absurd rfl h
  | cons a r ih =>
    intro _ hnb hlast acc
    cases r with
    | nil =>
      have ha : a ≠ [] := by simpa using hlast
      have := splitLinesGo_line a (hnb a (by simp)) [] acc []
      simp only [List.append_nil] at this
      simp only [joinWith, this, splitLinesGo]
      have : a.reverse.isEmpty = false := by simp [ha]
      simp [this]
    | cons b r' =>
      have h1 := splitLinesGo_line a (hnb a (by simp)) [] acc (['\n'] ++ joinWith ['\n'] (b :: r'))
      have e : joinWith ['\n'] (a :: b :: r') = a ++ (['\n'] ++ joinWith ['\n'] (b :: r')) := by
        simp [joinWith]
      rw [e, h1]
      have hb : isLineBreak '\n' = true := by decide
      have hr : ('\n' == '\r') = false := by decide
      rw [List.singleton_append, splitLinesGo]
      simp only [Bool.false_and, Bool.false_eq_true, if_false, hr, hb, if_true, List.append_nil,
        List.reverse_reverse]
      rw [ih (by simp) (fun l hl => hnb l (by simp [hl])) (by simpa using hlast)]
      simp

/-- splitting the joined text returns the lines -/
theorem splitLines_joinLines (lines : List Str) (hne : lines ≠ []) (hnb : ∀ l ∈ lines, NoBreak l)
    (hlast : lines.getLast? ≠ some []) : splitLines (joinLines lines) = lines := by
  unfold splitLines joinLines
  rw [splitLinesGo_join lines hne hnb hlast]; rfl

/-! ## §2 logical lines as token lists -/

theorem addV30Line_chars (line : Str) : ∀ p ∈ addV30Line line, ∀ c ∈ p,
    c ∈ v30Prefix ∨ c ∈ line ∨ c = '-' := by
  induction line using addV30Line.induct with
  | case1 l h =>
    rw [addV30Line]; simp only [h, if_true, List.mem_singleton]
    rintro p rfl c hc
    rcases List.mem_append.1 hc with hc | hc
    · exact Or.inl hc
    · exact Or.inr (Or.inl hc)
  | case2 l h ih =>
    rw [addV30Line]; simp only [h, if_false]
    intro p hp c hc
    rcases List.mem_cons.1 hp with rfl | hp
    · rcases List.mem_append.1 hc with hc | hc
      · rcases List.mem_append.1 hc with hc | hc
        · exact Or.inl hc
        · exact Or.inr (Or.inl (List.mem_of_mem_take hc))
      · exact Or.inr (Or.inr (by simpa using hc))
    · rcases ih p hp c hc with h' | h' | h'
      · exact Or.inl h'
      · exact Or.inr (Or.inl (List.mem_of_mem_drop h'))
      · exact Or.inr (Or.inr h')

theorem joinSp_chars : ∀ (ts : List Str) (c : Char), c ∈ joinSp ts → c = ' ' ∨ ∃ t ∈ ts, c ∈ t := by
  intro ts
  induction ts with
  | nil => intro c hc; simp [joinSp] at hc
  | cons a r ih =>
    intro c hc
    cases r with
    | nil => exact Or.inr ⟨a, by simp, by simpa [joinSp] using hc⟩
    | cons b r' =>
      simp only [joinSp, List.mem_append, List.mem_cons] at hc
      rcases hc with hc | hc | hc
      · exact Or.inr ⟨a, by simp, hc⟩
      · exact Or.inl hc
      · rcases ih c hc with h | ⟨t, ht, hct⟩
        · exact Or.inl h
        · exact Or.inr ⟨t, List.mem_cons_of_mem _ ht, hct⟩

theorem joinSp_getLast? : ∀ (ts : List Str) (t : Str), ts.getLast? = some t → t ≠ [] →
    (joinSp ts).getLast? = t.getLast? := by
  intro ts
  induction ts with
  | nil => intro t h; simp at h
  | cons a r ih =>
    intro t h ht
    cases r with
    | nil =>
      simp only [List.getLast?_singleton, Option.some.injEq] at h
      subst h; rfl
    | cons b r' =>
      have h' : (b :: r').getLast? = some t := by simpa [List.getLast?_cons_cons] using h
      have := ih t h' ht
      have hne : joinSp (b :: r') ≠ [] := by
        intro he; rw [he] at this
        cases t with
        | nil => exact ht rfl
        | cons x y => simp [List.getLast?_cons] at this
      show (a ++ ' ' :: joinSp (b :: r')).getLast? = _
      rw [List.getLast?_append, List.getLast?_cons_of_ne_nil hne, this] 
      cases hh : t.getLast? with
      | none => simp [List.getLast?_eq_none_iff] at hh; exact absurd hh ht
      | some x => rfl

/-- the tokens of one logical line: blank-free tokens, at least one, the last one not ending in a dash -/
structure GoodToks (ts : List Str) : Prop where
  toks : ∀ t ∈ ts, IsToken t
  last : ∃ t, ts.getLast? = some t ∧ t.getLast? ≠ some '-'

theorem GoodToks.ne_nil {ts : List Str} (h : GoodToks ts) : ts ≠ [] := by
  obtain ⟨t, ht, _⟩ := h.last
  intro he; rw [he] at ht; cases ht

theorem GoodToks.noDash {ts : List Str} (h : GoodToks ts) :
    endsWithChar (v30Prefix ++ joinSp ts) '-' = false := by
  obtain ⟨t, ht, hd⟩ := h.last
  have htok : IsToken t := h.toks t (List.mem_of_getLast? ht)
  have h1 := joinSp_getLast? ts t ht htok.1
  unfold endsWithChar
  rw [List.getLast?_append, h1]
  cases hh : t.getLast? with
  | none => simp [List.getLast?_eq_none_iff] at hh; exact absurd hh htok.1
  | some x =>
    rw [hh] at hd
    simp only [beq_eq_false_iff_ne, ne_eq]
    exact hd

theorem GoodToks.noBreak {ts : List Str} (h : GoodToks ts) : NoBreak (joinSp ts) := by
  intro c hc
  rcases joinSp_chars ts c hc with rfl | ⟨t, ht, hct⟩
  · decide
  · exact noBreak_of_noSpace ((h.toks t ht).2 c hct)

theorem noBreak_addV30Line {l : Str} (h : NoBreak l) : ∀ p ∈ addV30Line l, NoBreak p := by
  intro p hp c hc
  rcases addV30Line_chars l p hp c hc with h' | h' | rfl
  · have : ∀ c ∈ v30Prefix, isLineBreak c = false := by simp only [v30Prefix, cs]; decide
    exact this c h'
  · exact h c h'
  · decide

/-! ## §3 the physical lines of a file, split, spliced and tokenized -/

def line3 : Str := cs "  0  0  0     0  0            999 V3000"
def mEnd : Str := cs "M  END"

def hdrLines (hdr : Str) : List Str := [[], hdr, [], line3]

/-- the body: all wrapped logical lines, then `M  END` -/
def bodyLines (logical : List (List Str)) : List Str :=
  (logical.map fun ts => addV30Line (joinSp ts)).flatten ++ [mEnd]

def physLines (hdr : Str) (logical : List (List Str)) : List Str := hdrLines hdr ++ bodyLines logical

/-- what the reader's tokenizer makes of the file -/
def tokLines (hdr : Str) (logical : List (List Str)) : List (List Str) :=
  (hdrLines hdr).map tokenizeLine ++ (logical.map (fun ts => cs "M" :: cs "V30" :: ts) ++ [tokenizeLine mEnd])

theorem physLines_length (hdr : Str) (logical : List (List Str)) :
    ∀ l ∈ physLines hdr logical, l.length ≤ 79 ∨ l = hdr := by
  intro l hl
  simp only [physLines, hdrLines, bodyLines, List.mem_append, List.mem_cons, List.not_mem_nil, or_false,
    List.mem_flatten, List.mem_map] at hl
  rcases hl with (rfl | rfl | rfl | rfl) | ⟨ps, ⟨ts, -, rfl⟩, hp⟩ | rfl
  · left; simp
  · right; rfl
  · left; simp
  · left; simp [line3, cs]
  · left; exact addV30Line_length_le _ l hp
  · left; simp [mEnd, cs]

theorem physLines_split (hdr : Str) (hh : GoodHeader hdr) (logical : List (List Str))
    (hg : ∀ ts ∈ logical, GoodToks ts) :
    splitLines (joinLines (physLines hdr logical)) = physLines hdr logical := by
  apply splitLines_joinLines
  · simp [physLines, hdrLines]
  · intro l hl
    simp only [physLines, hdrLines, bodyLines, List.mem_append, List.mem_cons, List.not_mem_nil, or_false,
      List.mem_flatten, List.mem_map] at hl
    rcases hl with (rfl | rfl | rfl | rfl) | ⟨ps, ⟨ts, hts, rfl⟩, hp⟩ | rfl
    · intro c hc; cases hc
    · exact hh.1
    · intro c hc; cases hc
    · simp only [NoBreak, line3, cs]; decide
    · exact noBreak_addV30Line (hg ts hts).noBreak l hp
    · simp only [NoBreak, mEnd, cs]; decide
  · simp only [physLines, bodyLines, ← List.append_assoc, List.getLast?_concat]
    simp [mEnd, cs]

theorem physLines_splice (hdr : Str) (hh : GoodHeader hdr) (logical : List (List Str))
    (hg : ∀ ts ∈ logical, GoodToks ts) :
    concatLinesWithDash (physLines hdr logical) =
      .ok (hdrLines hdr ++ (logical.map (fun ts => v30Prefix ++ joinSp ts) ++ [mEnd])) := by
  have hbody : concatLinesWithDash (bodyLines logical)
      = .ok (logical.map (fun ts => v30Prefix ++ joinSp ts) ++ [mEnd]) := by
    have := splice_wrap_block (logical.map joinSp) (by
      intro l hl
      obtain ⟨ts, hts, rfl⟩ := List.mem_map.1 hl
      exact (hg ts hts).noDash) mEnd
    rw [List.map_map, List.map_map] at this
    exact this
  unfold physLines
  rw [splice_passthrough (hdrLines hdr) ?_ (bodyLines logical) (by simp [bodyLines]), hbody]
  · rfl
  · intro l hl
    simp only [hdrLines, List.mem_cons, List.not_mem_nil, or_false] at hl
    rcases hl with rfl | rfl | rfl | rfl
    · simp [startsWith, v30Prefix, cs]
    · simp [hh.2]
    · simp [startsWith, v30Prefix, cs]
    · simp [startsWith, v30Prefix, cs, line3]

theorem physLines_tokenize (hdr : Str) (hh : GoodHeader hdr) (logical : List (List Str))
    (hg : ∀ ts ∈ logical, GoodToks ts) :
    tokenizeLines (physLines hdr logical) = .ok (tokLines hdr logical) := by
  unfold tokenizeLines
  rw [physLines_splice hdr hh logical hg]
  simp only [ok_bind, tokLines, List.map_append, List.map_map, List.map_cons, List.map_nil]
  have : List.map (tokenizeLine ∘ fun ts => v30Prefix ++ joinSp ts) logical
      = List.map (fun ts => cs "M" :: cs "V30" :: ts) logical := by
    apply List.map_congr_left
    intro ts hts
    exact tokenizeLine_v30 ts (hg ts hts).ne_nil (hg ts hts).toks
  rw [this]
  rfl

/-- the version token of the fourth line -/
theorem line3_version : ((splitOnChar ' ' (rstrip line3)).getLast?).getD [] = cs "V3000" := by
  have : rstrip line3 = line3 := by
    have := rstrip_endsNonSpace (x := line3) ⟨cs "  0  0  0     0  0            999 V300", '0', by simp [line3, cs], by decide⟩ 0
    simpa using this
  rw [this]
  simp [line3, cs, splitOnChar]

/-! ## §4 evaluation helpers: indexing, folds, dictionaries, digit counts -/

theorem getIdx_at {α} (pre : List α) (x : α) (rest : List α) (i : Nat) (hi : i = pre.length) :
    getIdx (pre ++ x :: rest) i = .ok x := by
  subst hi
  simp [getIdx]

theorem getIdxInt_at {α} (pre : List α) (x : α) (rest : List α) (i : Int) (hi : i = pre.length) :
    getIdxInt (pre ++ x :: rest) i = .ok x := by
  subst hi
  unfold getIdxInt
  rw [if_pos (by omega)]
  exact getIdx_at pre x rest _ (by simp)

theorem sliceInt_mid {α} (pre mid rest : List α) (a b : Int) (ha : a = pre.length)
    (hb : b = pre.length + mid.length) : sliceInt (pre ++ (mid ++ rest)) a b = mid := by
  subst ha hb
  unfold sliceInt
  simp only [List.length_append]
  have h1 : ¬ ((pre.length : Int) < 0) := by omega
  have h2 : ¬ ((pre.length : Int) + (mid.length : Int) < 0) := by omega
  simp only [h1, h2, if_false]
  have e1 : (min (pre.length : Int) ((pre.length + (mid.length + rest.length) : Nat) : Int)).toNat = pre.length := by
    omega
  have e2 : (min ((pre.length : Int) + (mid.length : Int)) ((pre.length + (mid.length + rest.length) : Nat) : Int)).toNat
      = pre.length + mid.length := by
    omega
  rw [e1, e2]
  simp

/-- a monadic fold all of whose steps succeed, with an invariant on the state -/
theorem foldlM_map_ok {γ α β} (line : γ → α) (step : β → α → PyM β) (F : β → γ → β) (P : β → Prop) :
    ∀ (l : List γ) (b : β), P b →
      (∀ b c, c ∈ l → P b → step b (line c) = .ok (F b c) ∧ P (F b c)) →
      (l.map line).foldlM step b = .ok (l.foldl F b) ∧ P (l.foldl F b) := by
  intro l
  induction l with
  | nil => intro b hb _; exact ⟨rfl, hb⟩
  | cons c r ih =>
    intro b hb h
    obtain ⟨h1, h2⟩ := h b c (by simp) hb
    rw [List.map_cons, List.foldlM_cons, h1, ok_bind, List.foldl_cons]
    exact ih (F b c) h2 (fun b' c' hc' => h b' c' (by simp [hc']))

theorem mapM_ok {γ α} (f : γ → PyM α) (h : γ → α) : ∀ (l : List γ), (∀ c ∈ l, f c = .ok (h c)) →
    l.mapM f = .ok (l.map h) := by
  intro l
  induction l with
  | nil => intro _; rfl
  | cons c r ih =>
    intro hl
    rw [List.mapM_cons, hl c (by simp), ih (fun x hx => hl x (by simp [hx]))]
    rfl

theorem forM_ok {γ} (f : γ → PyM PUnit) : ∀ (l : List γ), (∀ c ∈ l, f c = .ok ()) → l.forM f = .ok () := by
  intro l
  induction l with
  | nil => intro _; rfl
  | cons c r ih =>
    intro hl
    show (f c >>= fun _ => r.forM f) = _
    rw [hl c (by simp), ok_bind]
    exact ih (fun x hx => hl x (by simp [hx]))

theorem ainsert_fresh {κ ν} [BEq κ] [LawfulBEq κ] (k : κ) (v : ν) : ∀ (l : List (κ × ν)),
    k ∉ l.map (·.1) → ainsert k v l = l ++ [(k, v)] := by
  intro l
  induction l with
  | nil => intro _; rfl
  | cons e r ih =>
    intro h
    obtain ⟨k', v'⟩ := e
    simp only [List.map_cons, List.mem_cons, not_or] at h
    have : (k' == k) = false := by
      simp only [beq_eq_false_iff_ne, ne_eq]; exact fun he => h.1 he.symm
    simp only [ainsert, this, Bool.false_eq_true, if_false, ih h.2, List.cons_append]

theorem foldl_ainsert_fresh {κ ν γ} [BEq κ] [LawfulBEq κ] (key : γ → κ) (val : γ → ν) :
    ∀ (l : List γ) (acc : List (κ × ν)), (acc.map (·.1) ++ l.map key).Nodup →
      l.foldl (fun a c => ainsert (key c) (val c) a) acc = acc ++ l.map (fun c => (key c, val c)) := by
  intro l
  induction l with
  | nil => intro acc _; simp
  | cons c r ih =>
    intro acc h
    have hfresh : key c ∉ acc.map (·.1) := by
      intro hc
      rw [List.nodup_append] at h
      exact h.2.2 _ hc _ (by simp) rfl
    rw [List.foldl_cons, ainsert_fresh _ _ _ hfresh, ih]
    · simp
    · simpa [List.append_assoc] using h

theorem alookup_isSome {κ ν} [BEq κ] [LawfulBEq κ] (k : κ) : ∀ (l : List (κ × ν)),
    k ∈ l.map (·.1) → (alookup k l).isSome = true := by
  intro l
  induction l with
  | nil => intro h; simp at h
  | cons e r ih =>
    intro h
    obtain ⟨k', v'⟩ := e
    simp only [alookup]
    by_cases he : k' = k
    · simp [he]
    · have : (k' == k) = false := by simpa using he
      simp only [this, Bool.false_eq_true, if_false]
      apply ih
      simp only [List.map_cons, List.mem_cons] at h
      rcases h with h | h
      · exact absurd h.symm he
      · exact h

/-- the decimal text does not get shorter when the number grows -/
theorem natRepr_length_mono {a b : Nat} (h : a ≤ b) : (natRepr a).length ≤ (natRepr b).length := by
  rw [natRepr_eq, natRepr_eq]
  have hpos : 0 < (Nat.toDigits 10 b).length := by
    have : Nat.toDigits 10 b ≠ [] := Nat.toDigits_ne_nil
    exact List.length_pos_iff.2 this
  rw [Nat.length_toDigits_le_iff (by decide) hpos]
  have := (Nat.length_toDigits_le_iff (b := 10) (n := b) (by decide) hpos).1 (Nat.le_refl _)
  omega

theorem natRepr_len_le {a b : Nat} (h : a ≤ b) (hb : (natRepr b).length ≤ intMaxStrDigits) :
    (natRepr a).length ≤ intMaxStrDigits := Nat.le_trans (natRepr_length_mono h) hb

theorem natRepr_isToken (n : Nat) : IsToken (natRepr n) :=
  ⟨(natRepr_shape n).1, fun c hc => isDigit_not_space ((natRepr_shape n).2.1 c hc)⟩

theorem intRepr_isToken (v : Int) : IsToken (intRepr v) := by
  refine ⟨?_, intRepr_no_space v⟩
  cases v with
  | ofNat n => exact (natRepr_shape n).1
  | negSucc n => simp [intRepr]

theorem natRepr_last (n : Nat) : (natRepr n).getLast? ≠ some '-' := by
  intro h
  have := (natRepr_shape n).2.1 _ (List.mem_of_getLast? h)
  revert this; decide

theorem intRepr_last (v : Int) : (intRepr v).getLast? ≠ some '-' := by
  cases v with
  | ofNat n => exact natRepr_last n
  | negSucc n =>
    show ('-' :: natRepr (n + 1)).getLast? ≠ _
    rw [List.getLast?_cons_of_ne_nil (natRepr_shape (n + 1)).1]
    exact natRepr_last _

/-! ## §5 the writer's logical lines -/

theorem GoodToks.of_suffix (pre suf : List Str) (hne : suf ≠ []) (htok : ∀ t ∈ pre ++ suf, IsToken t)
    (hl : ∀ t ∈ suf, t.getLast? ≠ some '-') : GoodToks (pre ++ suf) := by
  refine ⟨htok, ?_⟩
  obtain ⟨t, ht⟩ : ∃ t, suf.getLast? = some t := by
    cases h : suf.getLast? with
    | none => exact absurd (List.getLast?_eq_none_iff.1 h) hne
    | some t => exact ⟨t, rfl⟩
  refine ⟨t, ?_, hl t (List.mem_of_getLast? ht)⟩
  rw [List.getLast?_append, ht]; rfl

theorem isToken_closed (t : Str) (h : (t != [] && t.all fun c => !isPySpace c) = true) : IsToken t := by
  simp only [Bool.and_eq_true, bne_iff_ne, ne_eq, List.all_eq_true, Bool.not_eq_true'] at h
  exact h

/-- a fixed keyword line -/
theorem goodToks_closed (ts : List Str)
    (h : (ts != [] && ts.all fun t => t != [] && (t.all fun c => !isPySpace c) && t.getLast? != some '-') = true) :
    GoodToks ts := by
  simp only [Bool.and_eq_true, bne_iff_ne, ne_eq, List.all_eq_true, Bool.not_eq_true'] at h
  have := GoodToks.of_suffix [] ts h.1 (fun t ht => ⟨(h.2 t ht).1.1, (h.2 t ht).1.2⟩) (fun t ht => (h.2 t ht).2)
  simpa using this

def tBeginCtab : List Str := [cs "BEGIN", cs "CTAB"]
def tEndCtab : List Str := [cs "END", cs "CTAB"]
def tBeginAtom : List Str := [cs "BEGIN", cs "ATOM"]
def tEndAtom : List Str := [cs "END", cs "ATOM"]
def tBeginBond : List Str := [cs "BEGIN", cs "BOND"]
def tEndBond : List Str := [cs "END", cs "BOND"]

theorem good_fixed : GoodToks tBeginCtab ∧ GoodToks tEndCtab ∧ GoodToks tBeginAtom ∧ GoodToks tEndAtom ∧
    GoodToks tBeginBond ∧ GoodToks tEndBond := by
  refine ⟨?_, ?_, ?_, ?_, ?_, ?_⟩ <;> apply goodToks_closed <;>
    simp only [tBeginCtab, tEndCtab, tBeginAtom, tEndAtom, tBeginBond, tEndBond, cs] <;> decide

def countsToks (n m : Nat) : List Str := [cs "COUNTS", natRepr n, natRepr m, ['0'], ['0'], ['0']]

theorem good_counts (n m : Nat) : GoodToks (countsToks n m) := by
  have h0 : IsToken ['0'] := ⟨by simp, by decide⟩
  have := GoodToks.of_suffix [cs "COUNTS", natRepr n, natRepr m, ['0'], ['0']] [['0']] (by simp) (by
    intro t ht
    simp only [List.cons_append, List.nil_append, List.mem_cons, List.not_mem_nil, or_false] at ht
    rcases ht with rfl | rfl | rfl | rfl | rfl | rfl
    · exact isToken_closed _ (by simp only [cs]; decide)
    · exact natRepr_isToken n
    · exact natRepr_isToken m
    · exact h0
    · exact h0
    · exact h0) (by
    intro t ht
    simp only [List.mem_singleton] at ht
    subst ht; decide)
  simpa [countsToks] using this

def atomToks (n : Node) : List Str :=
  [natRepr (n.id + 1), n.attrs.sym.getD [], n.attrs.x.getD zeroCoord, n.attrs.y.getD zeroCoord,
    n.attrs.zc.getD zeroCoord] ++
  (['0'] :: (optTok (cs "CHG") n.attrs.chg ++ optTok (cs "RAD") n.attrs.rad ++ optTok (cs "MASS") n.attrs.mass))

def bondToks (k : Nat) (e : Nat × Nat × Bond) : List Str :=
  [natRepr k, intRepr (e.2.2.btype.getD 1), natRepr (e.1 + 1), natRepr (e.2.1 + 1)]

theorem good_bond (k : Nat) (e : Nat × Nat × Bond) : GoodToks (bondToks k e) := by
  have := GoodToks.of_suffix [] (bondToks k e) (by simp [bondToks]) (by
    intro t ht
    simp only [bondToks, List.nil_append, List.mem_cons, List.not_mem_nil, or_false] at ht
    rcases ht with rfl | rfl | rfl | rfl
    · exact natRepr_isToken _
    · exact intRepr_isToken _
    · exact natRepr_isToken _
    · exact natRepr_isToken _) (by
    intro t ht
    simp only [bondToks, List.mem_cons, List.not_mem_nil, or_false] at ht
    rcases ht with rfl | rfl | rfl | rfl
    · exact natRepr_last _
    · exact intRepr_last _
    · exact natRepr_last _
    · exact natRepr_last _)
  simpa using this

theorem optTok_last {key : Str} (o : Option Int) : ∀ t ∈ optTok key o, t.getLast? ≠ some '-' := by
  cases o with
  | none => intro t ht; cases ht
  | some v =>
    intro t ht
    simp only [optTok, List.mem_singleton] at ht
    subst ht
    have hne : intRepr v ≠ [] := (intRepr_isToken v).1
    have : (key ++ '=' :: intRepr v).getLast? = (intRepr v).getLast? := by
      rw [List.getLast?_append, List.getLast?_cons_of_ne_nil hne]
      cases h : (intRepr v).getLast? with
      | none => exact absurd (List.getLast?_eq_none_iff.1 h) hne
      | some c => rfl
    rw [this]; exact intRepr_last v

/-- the atomic number the reader looks up for the node's symbol -/
def zOf (n : Node) : Int :=
  match atomicNumberOf (n.attrs.sym.getD []) with
  | .ok z => z
  | .error _ => 0

/-- the attribute record the reader builds from the node's atom line -/
def atomRec (n : Node) : Atom :=
  { sym := n.attrs.sym, z := some (zOf n), part := some 0,
    x := some (n.attrs.x.getD zeroCoord), y := some (n.attrs.y.getD zeroCoord),
    zc := some (n.attrs.zc.getD zeroCoord),
    chg := n.attrs.chg, rad := n.attrs.rad, mass := n.attrs.mass }

structure AtomFacts (n : Node) : Prop where
  line : atomLine n = .ok (joinSp (atomToks n))
  good : GoodToks (atomToks n)
  z : atomicNumberOf (n.attrs.sym.getD []) = .ok (zOf n)
  parse : parseAtomAttributesV3000 (cs "M" :: cs "V30" :: atomToks n) = .ok (some (atomRec n))

theorem atomFacts (n : Node) (hw : WritableAtom n) (_hid : (natRepr (n.id + 1)).length ≤ intMaxStrDigits) :
    AtomFacts n := by
  obtain ⟨s, hs, hel⟩ := hw.sym
  have hline := atomLine_eq n s hs hw.chg hw.rad (fun m hm => (hw.mass m hm).1)
  have hsd : n.attrs.sym.getD [] = s := by rw [hs]; rfl
  have htoks : [natRepr (n.id + 1), s, n.attrs.x.getD zeroCoord, n.attrs.y.getD zeroCoord,
      n.attrs.zc.getD zeroCoord, ['0']] ++ optTok (cs "CHG") n.attrs.chg ++ optTok (cs "RAD") n.attrs.rad
      ++ optTok (cs "MASS") n.attrs.mass = atomToks n := by
    simp [atomToks, hsd]
  rw [htoks] at hline
  have hsok : symOk s = true := List.all_eq_true.1 elementSyms_symOk s hel
  simp only [symOk, Bool.and_eq_true, bne_iff_ne, ne_eq, List.all_eq_true, Bool.not_eq_true'] at hsok
  have hsymTok : IsToken s := ⟨hsok.1.1.1.1.1.1.1, hsok.1.1.1.1.1.1.2⟩
  have kC : KeyC (cs "CHG") := Or.inl rfl
  have kM : KeyC (cs "MASS") := Or.inr (Or.inl rfl)
  have kR : KeyC (cs "RAD") := Or.inr (Or.inr rfl)
  have hgood : GoodToks (atomToks n) := by
    apply GoodToks.of_suffix
    · simp
    · intro t ht
      simp only [List.mem_append, List.mem_cons, List.not_mem_nil, or_false] at ht
      rcases ht with (rfl | rfl | rfl | rfl | rfl) | rfl | (h | h) | h
      · exact natRepr_isToken _
      · rw [hsd]; exact hsymTok
      · exact (hw.coords _ (by simp)).1
      · exact (hw.coords _ (by simp)).1
      · exact (hw.coords _ (by simp)).1
      · exact ⟨by simp, by decide⟩
      · exact optTok_isToken kC _ t h
      · exact optTok_isToken kR _ t h
      · exact optTok_isToken kM _ t h
    · intro t ht
      simp only [List.mem_append, List.mem_cons] at ht
      rcases ht with rfl | (h | h) | h
      · decide
      · exact optTok_last _ t h
      · exact optTok_last _ t h
      · exact optTok_last _ t h
  obtain ⟨line, z, h1, h2, _, h4⟩ := atomLine_roundtrip n s hs hel
    (fun t ht => ⟨(hw.coords t ht).1, (hw.coords t ht).2.1⟩) hw.chg hw.rad hw.mass
  have hl : line = joinSp (atomToks n) := by
    rw [hline] at h1
    exact (Except.ok.inj h1).symm
  subst hl
  rw [tokenizeLine_v30 _ hgood.ne_nil hgood.toks] at h4
  have hz : zOf n = z := by
    unfold zOf; rw [hsd, h2]
  refine ⟨hline, hgood, by rw [hsd, hz]; exact h2, ?_⟩
  rw [h4, atomRec, hz, hs]

def bondPart (es : List (Nat × Nat × Bond)) : List (List Str) :=
  if es.isEmpty then []
  else tBeginBond :: ((es.zipIdx.map fun p => bondToks (p.2 + 1) p.1) ++ [tEndBond])

/-- the token lists of all logical lines of the file written for `g` -/
def logicalToks (g : Graph) : List (List Str) :=
  tBeginCtab :: countsToks g.numberOfNodes g.edges.length :: tBeginAtom ::
    (g.nodes.map atomToks ++ (tEndAtom :: (bondPart g.edges ++ [tEndCtab])))

theorem logicalToks_good (g : Graph) (ha : ∀ n ∈ g.nodes, AtomFacts n) : ∀ ts ∈ logicalToks g, GoodToks ts := by
  obtain ⟨g1, g2, g3, g4, g5, g6⟩ := good_fixed
  intro ts hts
  simp only [logicalToks, List.mem_cons, List.mem_append, List.mem_map, List.not_mem_nil, or_false] at hts
  rcases hts with rfl | rfl | rfl | ⟨n, hn, rfl⟩ | rfl | h | rfl
  · exact g1
  · exact good_counts _ _
  · exact g3
  · exact (ha n hn).good
  · exact g4
  · unfold bondPart at h
    split at h
    · cases h
    · simp only [List.mem_cons, List.mem_append, List.mem_map, List.not_mem_nil, or_false] at h
      rcases h with rfl | ⟨p, -, rfl⟩ | rfl
      · exact g5
      · exact good_bond _ _
      · exact g6
  · exact g2

/-- **the writer's output**, as wrapped token lines -/
theorem writer_shape (g : Graph) (hdr : Str) (ha : ∀ n ∈ g.nodes, AtomFacts n) :
    graphToMolfileLines g hdr = .ok (physLines hdr (logicalToks g)) := by
  have hm := mapM_ok atomLine (fun n => joinSp (atomToks n)) g.nodes (fun n hn => (ha n hn).line)
  have e1 : cs "BEGIN CTAB" = joinSp tBeginCtab := by simp [cs, joinSp, tBeginCtab]
  have e2 : cs "END CTAB" = joinSp tEndCtab := by simp [cs, joinSp, tEndCtab]
  have e3 : cs "BEGIN ATOM" = joinSp tBeginAtom := by simp [cs, joinSp, tBeginAtom]
  have e4 : cs "END ATOM" = joinSp tEndAtom := by simp [cs, joinSp, tEndAtom]
  have e5 : cs "BEGIN BOND" = joinSp tBeginBond := by simp [cs, joinSp, tBeginBond]
  have e6 : cs "END BOND" = joinSp tEndBond := by simp [cs, joinSp, tEndBond]
  have e7 : cs "COUNTS " ++ natRepr g.numberOfNodes ++ ' ' :: natRepr g.edges.length ++ cs " 0 0 0"
      = joinSp (countsToks g.numberOfNodes g.edges.length) := by
    simp [cs, joinSp, countsToks]
  have e8 : ∀ (k : Nat) (e : Nat × Nat × Bond), bondLine k e = joinSp (bondToks k e) := by
    intro k e; simp [bondLine, joinSp, bondToks]
  unfold graphToMolfileLines
  rw [hm]
  simp only [ok_bind, e1, e2, e3, e4, e5, e6, e7, e8]
  show Except.ok _ = Except.ok _
  congr 1
  simp only [physLines, hdrLines, bodyLines, logicalToks, bondPart, line3, mEnd, List.map_cons, List.map_append,
    List.map_map, List.flatten_cons, List.flatten_append, List.append_assoc, List.cons_append, List.nil_append]
  cases hE : g.edges.isEmpty with
  | true => simp [Function.comp_def]
  | false => simp [Function.comp_def]

/-! ## §6 the reader on the token lines -/

/-- a tokenized `M  V30 ` line -/
def mv (ts : List Str) : List Str := cs "M" :: cs "V30" :: ts

def atomsL (g : Graph) : List (List Str) := g.nodes.map fun n => mv (atomToks n)
def bondsL (es : List (Nat × Nat × Bond)) : List (List Str) := es.zipIdx.map fun p => mv (bondToks (p.2 + 1) p.1)

/-- the first seven token lines -/
def pre7 (hdr : Str) (n m : Nat) : List (List Str) :=
  [tokenizeLine [], tokenizeLine hdr, tokenizeLine [], tokenizeLine line3, mv tBeginCtab, mv (countsToks n m),
    mv tBeginAtom]

def endL : List (List Str) := [mv tEndCtab, tokenizeLine mEnd]

def tailL (es : List (Nat × Nat × Bond)) : List (List Str) :=
  if es.isEmpty then endL else mv tBeginBond :: (bondsL es ++ (mv tEndBond :: endL))

theorem tokLines_shape (hdr : Str) (g : Graph) :
    tokLines hdr (logicalToks g) =
      pre7 hdr g.numberOfNodes g.edges.length ++ (atomsL g ++ (mv tEndAtom :: tailL g.edges)) := by
  simp only [tokLines, logicalToks, hdrLines, pre7, atomsL, tailL, bondPart, bondsL, endL, mv, List.map_cons,
    List.map_append, List.map_map, List.map_nil, List.cons_append, List.nil_append, List.append_assoc]
  cases hE : g.edges.isEmpty with
  | true => simp [Function.comp_def]
  | false => simp [Function.comp_def]

theorem expectBlockLine_at (pre : List (List Str)) (ts : List Str) (rest : List (List Str)) (i : Int)
    (what : Str) (hi : i = pre.length) (hw : joinSp ts = what) :
    expectBlockLine (pre ++ mv ts :: rest) i what = .ok () := by
  unfold expectBlockLine
  rw [getIdxInt_at pre _ rest i hi]
  simp only [ok_bind, mv, List.drop_succ_cons, List.drop_zero, hw, bne_self_eq_false, Bool.false_eq_true,
    if_false]
  rfl

theorem validateCounts_eval (hdr : Str) (n m : Nat) (rest : List (List Str)) :
    validateCountsLine (pre7 hdr n m ++ rest) = .ok () := by
  unfold validateCountsLine
  have h5 : getIdx (pre7 hdr n m ++ rest) 5 = .ok (mv (countsToks n m)) := by simp [getIdx, pre7]
  have h2 : getIdx (mv (countsToks n m)) 2 = .ok (cs "COUNTS") := by simp [getIdx, mv, countsToks]
  simp only [h5, ok_bind, h2]
  simp [mv, countsToks]
  rfl

theorem counts_get (hdr : Str) (n m : Nat) (rest : List (List Str)) :
    getIdx (pre7 hdr n m ++ rest) 5 = .ok (mv (countsToks n m)) ∧
    getIdx (mv (countsToks n m)) 3 = .ok (natRepr n) ∧ getIdx (mv (countsToks n m)) 4 = .ok (natRepr m) := by
  refine ⟨?_, ?_, ?_⟩ <;> simp [getIdx, pre7, mv, countsToks]

def atomDict (g : Graph) : List (Int × Atom) := g.nodes.map fun n => ((n.id : Int), atomRec n)

theorem atomBlock_eval (hdr : Str) (g : Graph) (m : Nat) (rest : List (List Str))
    (hnd : g.labels.Nodup) (ha : ∀ n ∈ g.nodes, AtomFacts n)
    (hn : (natRepr g.numberOfNodes).length ≤ intMaxStrDigits)
    (hid : ∀ n ∈ g.nodes, (natRepr (n.id + 1)).length ≤ intMaxStrDigits) :
    parseAtomBlockV3000 (pre7 hdr g.numberOfNodes m ++ (atomsL g ++ (mv tEndAtom :: rest)))
      = .ok (atomDict g, []) := by
  obtain ⟨h5, h3, -⟩ := counts_get hdr g.numberOfNodes m (atomsL g ++ (mv tEndAtom :: rest))
  have hlenA : (atomsL g).length = g.numberOfNodes := by simp [atomsL, Graph.numberOfNodes]
  have hb : expectBlockLine (pre7 hdr g.numberOfNodes m ++ (atomsL g ++ (mv tEndAtom :: rest))) 6 (cs "BEGIN ATOM")
      = .ok () := by
    have := expectBlockLine_at (List.take 6 (pre7 hdr g.numberOfNodes m)) tBeginAtom
      (atomsL g ++ (mv tEndAtom :: rest)) 6 (cs "BEGIN ATOM") (by simp [pre7]) (by simp [tBeginAtom, joinSp, cs])
    simpa [pre7] using this
  have he : expectBlockLine (pre7 hdr g.numberOfNodes m ++ (atomsL g ++ (mv tEndAtom :: rest)))
      (7 + (g.numberOfNodes : Int)) (cs "END ATOM") = .ok () := by
    have := expectBlockLine_at (pre7 hdr g.numberOfNodes m ++ atomsL g) tEndAtom rest
      (7 + (g.numberOfNodes : Int)) (cs "END ATOM") (by simp [pre7, hlenA]; omega) (by simp [tEndAtom, joinSp, cs])
    simpa [List.append_assoc] using this
  have hs : sliceInt (pre7 hdr g.numberOfNodes m ++ (atomsL g ++ (mv tEndAtom :: rest))) 7
      (7 + (g.numberOfNodes : Int)) = atomsL g :=
    sliceInt_mid _ _ _ _ _ (by simp [pre7]) (by simp [pre7, hlenA])
  unfold parseAtomBlockV3000
  simp only [h5, ok_bind, h3, pyInt_natRepr _ hn, hb, he, hs]
  -- the loop
  have key := foldlM_map_ok (fun n => mv (atomToks n))
    (fun (x : List (Int × Atom) × List Int) (line : List Str) =>
      (match x with
      | (atoms, stars) => do
        let idx ← pyInt (← getIdx line 2)
        match ← parseAtomAttributesV3000 line with
          | none => pure (atoms, stars ++ [idx - 1])
          | some a => pure (ainsert (idx - 1) a atoms, stars) : PyM (List (Int × Atom) × List Int)))
    (fun x n => (ainsert (n.id : Int) (atomRec n) x.1, x.2)) (fun x => x.2 = []) g.nodes ([], []) rfl
    (by
      rintro ⟨atoms, stars⟩ n hn' hst
      simp only at hst
      subst hst
      have h2 : getIdx (mv (atomToks n)) 2 = .ok (natRepr (n.id + 1)) := by simp [getIdx, mv, atomToks]
      have hp : parseAtomAttributesV3000 (mv (atomToks n)) = .ok (some (atomRec n)) := (ha n hn').parse
      refine ⟨?_, rfl⟩
      simp only [h2, ok_bind, pyInt_natRepr _ (hid n hn'), hp]
      have : ((n.id + 1 : Nat) : Int) - 1 = (n.id : Int) := by omega
      rw [this]
      rfl)
  obtain ⟨k1, k2⟩ := key
  have hfold : g.nodes.foldl (fun (x : List (Int × Atom) × List Int) n => (ainsert (n.id : Int) (atomRec n) x.1, x.2))
      ([], []) = (atomDict g, []) := by
    have : ∀ (ns : List Node) (acc : List (Int × Atom)),
        ns.foldl (fun (x : List (Int × Atom) × List Int) n => (ainsert (n.id : Int) (atomRec n) x.1, x.2)) (acc, [])
        = (ns.foldl (fun a n => ainsert (n.id : Int) (atomRec n) a) acc, []) := by
      intro ns
      induction ns with
      | nil => intro acc; rfl
      | cons n r ih => intro acc; rw [List.foldl_cons, List.foldl_cons, ih]
    rw [this, foldl_ainsert_fresh (fun n : Node => (n.id : Int)) atomRec g.nodes []]
    · simp [atomDict]
    · simp only [List.map_nil, List.nil_append]
      have : g.nodes.map (fun n : Node => (n.id : Int)) = g.labels.map (fun (i : Nat) => (i : Int)) := by
        simp [Graph.labels]
      rw [this]
      exact NxRelabel.nodup_map_of_injOn _ hnd (fun a _ b _ h => by omega)
  rw [hfold] at k1
  exact k1

/-- the dictionary entry the reader makes of a written bond line -/
def bondRec (e : Nat × Nat × Bond) : (Int × Int) × Bond :=
  (((e.1 : Int), (e.2.1 : Int)), { btype := some (e.2.2.btype.getD 1) })

def bondDict (es : List (Nat × Nat × Bond)) : List ((Int × Int) × Bond) := es.map bondRec

theorem bondBlock_eval (hdr : Str) (n : Nat) (A : List (List Str)) (hA : A.length = n)
    (es : List (Nat × Nat × Bond))
    (hn : (natRepr n).length ≤ intMaxStrDigits) (hm : (natRepr es.length).length ≤ intMaxStrDigits)
    (he : ∀ e ∈ es, (natRepr (e.1 + 1)).length ≤ intMaxStrDigits ∧ (natRepr (e.2.1 + 1)).length ≤ intMaxStrDigits ∧
      (intRepr (e.2.2.btype.getD 1)).length ≤ intMaxStrDigits)
    (hkeys : (es.map fun e => (bondRec e).1).Nodup) :
    parseBondBlockV3000 (pre7 hdr n es.length ++ (A ++ (mv tEndAtom :: tailL es))) [] = .ok (bondDict es) := by
  obtain ⟨h5, h3, h4⟩ := counts_get hdr n es.length (A ++ (mv tEndAtom :: tailL es))
  unfold parseBondBlockV3000
  simp only [h5, ok_bind, h3, h4, pyInt_natRepr _ hn, pyInt_natRepr _ hm]
  cases es with
  | nil => simp [bondDict]; rfl
  | cons e0 es0 =>
    generalize hes : e0 :: es0 = es at *
    have hne : ((es.length : Int) == 0) = false := by
      subst hes; simp only [List.length_cons, beq_eq_false_iff_ne, ne_eq]; omega
    have htail : tailL es = mv tBeginBond :: (bondsL es ++ (mv tEndBond :: endL)) := by
      subst hes; simp [tailL]
    have hlenB : (bondsL es).length = es.length := by simp [bondsL]
    rw [htail]
    simp only [hne, Bool.false_eq_true, if_false]
    have hb : expectBlockLine (pre7 hdr n es.length ++ (A ++ (mv tEndAtom :: mv tBeginBond ::
          (bondsL es ++ (mv tEndBond :: endL))))) (7 + (n : Int) + 2 - 1) (cs "BEGIN BOND") = .ok () := by
      have := expectBlockLine_at (pre7 hdr n es.length ++ A ++ [mv tEndAtom]) tBeginBond
        (bondsL es ++ (mv tEndBond :: endL)) (7 + (n : Int) + 2 - 1) (cs "BEGIN BOND")
        (by simp [pre7, hA]; omega) (by simp [tBeginBond, joinSp, cs])
      simpa [List.append_assoc] using this
    have hend : expectBlockLine (pre7 hdr n es.length ++ (A ++ (mv tEndAtom :: mv tBeginBond ::
          (bondsL es ++ (mv tEndBond :: endL))))) (7 + (n : Int) + 2 + (es.length : Int)) (cs "END BOND") = .ok () := by
      have := expectBlockLine_at (pre7 hdr n es.length ++ A ++ [mv tEndAtom, mv tBeginBond] ++ bondsL es) tEndBond
        endL (7 + (n : Int) + 2 + (es.length : Int)) (cs "END BOND")
        (by simp [pre7, hA, hlenB]; omega) (by simp [tEndBond, joinSp, cs])
      simpa [List.append_assoc] using this
    have hs : sliceInt (pre7 hdr n es.length ++ (A ++ (mv tEndAtom :: mv tBeginBond ::
          (bondsL es ++ (mv tEndBond :: endL))))) (7 + (n : Int) + 2) (7 + (n : Int) + 2 + (es.length : Int))
        = bondsL es := by
      have := sliceInt_mid (pre7 hdr n es.length ++ A ++ [mv tEndAtom, mv tBeginBond]) (bondsL es)
        (mv tEndBond :: endL) (7 + (n : Int) + 2) (7 + (n : Int) + 2 + (es.length : Int))
        (by simp [pre7, hA]; omega) (by simp [pre7, hA, hlenB]; omega)
      simpa [List.append_assoc] using this
    simp only [hb, hend, hs, ok_bind]
    unfold bondsL
    refine Eq.trans (And.left (foldlM_map_ok (fun p : (Nat × Nat × Bond) × Nat => mv (bondToks (p.2 + 1) p.1)) _
      (fun b p => ainsert (bondRec p.1).1 (bondRec p.1).2 b) (fun _ => True) es.zipIdx [] trivial ?_)) ?_
    · intro b p hp _
      refine ⟨?_, trivial⟩
      obtain ⟨b1, b2, b3⟩ := he p.1 (List.fst_mem_of_mem_zipIdx hp)
      have g4 : getIdx (mv (bondToks (p.2 + 1) p.1)) 4 = .ok (natRepr (p.1.1 + 1)) := by simp [getIdx, mv, bondToks]
      have g5 : getIdx (mv (bondToks (p.2 + 1) p.1)) 5 = .ok (natRepr (p.1.2.1 + 1)) := by simp [getIdx, mv, bondToks]
      have g3 : getIdx (mv (bondToks (p.2 + 1) p.1)) 3 = .ok (intRepr (p.1.2.2.btype.getD 1)) := by
        simp [getIdx, mv, bondToks]
      simp only [g4, g5, g3, ok_bind, pyInt_natRepr _ b1, pyInt_natRepr _ b2, pyInt_intRepr _ b3,
        List.contains_nil, Bool.false_and, Bool.false_eq_true, if_false]
      have e1 : ((p.1.1 + 1 : Nat) : Int) - 1 = (p.1.1 : Int) := by omega
      have e2 : ((p.1.2.1 + 1 : Nat) : Int) - 1 = (p.1.2.1 : Int) := by omega
      rw [e1, e2]
      rfl
    · congr 1
      have : es.zipIdx.foldl (fun b (p : (Nat × Nat × Bond) × Nat) => ainsert (bondRec p.1).1 (bondRec p.1).2 b) []
          = es.foldl (fun b e => ainsert (bondRec e).1 (bondRec e).2 b) [] := by
        conv => rhs; rw [← List.zipIdx_map_fst 0 es, List.foldl_map]
      rw [this, foldl_ainsert_fresh (fun e => (bondRec e).1) (fun e => (bondRec e).2) es []]
      · simp [bondDict]
      · simpa using hkeys

theorem validateBond_eval (g : Graph) (hw : g.WF) :
    validateBondIndices (bondDict g.edges) (atomDict g) = .ok () := by
  unfold validateBondIndices
  apply forM_ok
  intro b hb
  obtain ⟨⟨u, v, d⟩, he, rfl⟩ := List.mem_map.1 hb
  have h1 := Graph.mem_edges g hw u v d he
  have hu : u ∈ g.labels := NxE.mem_labels_of_mem_nbrsD h1
  have hv : v ∈ g.labels := NxE.WF.closedD hw h1
  have key : ∀ a ∈ g.labels, (alookup (a : Int) (atomDict g)).isNone = false := by
    intro a ha
    have := alookup_isSome (a : Int) (atomDict g) (by
      obtain ⟨n, hn, rfl⟩ := List.mem_map.1 ha
      exact List.mem_map.2 ⟨_, List.mem_map.2 ⟨n, hn, rfl⟩, rfl⟩)
    cases h : alookup (a : Int) (atomDict g) with
    | none => rw [h] at this; cases this
    | some x => rfl
  simp only [bondRec, key u hu, key v hv, Bool.or_self, Bool.false_eq_true, if_false]
  rfl

/-- everything the evaluation needs, derived from the hypotheses of `write_read` -/
structure Bounds (g : Graph) : Prop where
  nodes : (natRepr g.numberOfNodes).length ≤ intMaxStrDigits
  edges : (natRepr g.edges.length).length ≤ intMaxStrDigits
  ids : ∀ n ∈ g.nodes, (natRepr (n.id + 1)).length ≤ intMaxStrDigits
  ends : ∀ e ∈ g.edges, (natRepr (e.1 + 1)).length ≤ intMaxStrDigits ∧
      (natRepr (e.2.1 + 1)).length ≤ intMaxStrDigits ∧
      (intRepr (e.2.2.btype.getD 1)).length ≤ intMaxStrDigits

theorem bounds (g : Graph) (hw : g.WF) (hlab : g.labels = List.range g.numberOfNodes)
    (hbonds : ∀ n ∈ g.nodes, ∀ e ∈ n.nbrs, ∀ bt, e.2.btype = some bt → (intRepr bt).length ≤ intMaxStrDigits)
    (hsize : (natRepr (g.numberOfNodes + g.numberOfEdges + 1)).length ≤ intMaxStrDigits) : Bounds g := by
  have hlt : ∀ a ∈ g.labels, a < g.numberOfNodes := by
    intro a ha; rw [hlab] at ha; exact List.mem_range.1 ha
  refine ⟨natRepr_len_le (by omega) hsize, natRepr_len_le (by unfold Graph.numberOfEdges; omega) hsize, ?_, ?_⟩
  · intro n hn
    have := hlt n.id (List.mem_map.2 ⟨n, hn, rfl⟩)
    exact natRepr_len_le (by omega) hsize
  · rintro ⟨u, v, d⟩ he
    have h1 := Graph.mem_edges g hw u v d he
    have hu := hlt u (NxE.mem_labels_of_mem_nbrsD h1)
    have hv := hlt v (NxE.WF.closedD hw h1)
    refine ⟨natRepr_len_le (by simp only; omega) hsize, natRepr_len_le (by simp only; omega) hsize, ?_⟩
    obtain ⟨n, -, hn, -, hm⟩ := NxE.mem_nbrsD h1
    simp only
    cases hbt : d.btype with
    | none => exact intRepr_small_len 1 (by omega) (by omega)
    | some bt => exact hbonds n hn (v, d) hm bt hbt

theorem bondKeys_nodup (g : Graph) (hw : g.WF) : (g.edges.map fun e => (bondRec e).1).Nodup := by
  have := NxE.edges_norm_nodup hw
  unfold List.Nodup at this ⊢
  rw [List.pairwise_map] at this ⊢
  refine this.imp ?_
  rintro ⟨u, v, d⟩ ⟨u', v', d'⟩ hne hc
  apply hne
  simp only [bondRec, Prod.mk.injEq] at hc
  rw [NxE.norm_eq_norm_iff]
  left; omega

/-- **the V3000 reader on the written lines** returns the atom and bond dictionaries of the graph -/
theorem graphAttributes_eval (g : Graph) (hdr : Str) (hh : GoodHeader hdr) (hw : g.WF)
    (ha : ∀ n ∈ g.nodes, AtomFacts n) (hb : Bounds g) :
    graphAttributesV3000 (physLines hdr (logicalToks g)) = .ok (atomDict g, bondDict g.edges) := by
  unfold graphAttributesV3000
  rw [physLines_tokenize hdr hh _ (logicalToks_good g ha), tokLines_shape]
  simp only [ok_bind]
  rw [validateCounts_eval, ok_bind,
    atomBlock_eval hdr g g.edges.length (tailL g.edges) hw.nodup ha hb.nodes hb.ids]
  simp only [ok_bind]
  rw [bondBlock_eval hdr g.numberOfNodes (atomsL g) (by simp [atomsL, Graph.numberOfNodes]) g.edges hb.nodes
    hb.edges hb.ends (bondKeys_nodup g hw), ok_bind, validateBond_eval g hw]
  rfl

/-! ## §7 `graph_from_molecule` on the dictionaries read back -/

theorem atomDict_length (g : Graph) : (atomDict g).length = g.numberOfNodes := by
  simp [atomDict, Graph.numberOfNodes]

theorem atomDict_consecutive (g : Graph) (hlab : g.labels = List.range g.numberOfNodes) :
    ConsecutiveKeys (atomDict g) := by
  unfold ConsecutiveKeys
  rw [atomDict_length, ← hlab]
  simp [atomDict, Graph.labels]

theorem bondDict_good (g : Graph) (hw : g.WF) (hs : g.Simple) (hlab : g.labels = List.range g.numberOfNodes) :
    GoodBonds (atomDict g).length (bondDict g.edges) := by
  rw [atomDict_length]
  have hlt : ∀ a ∈ g.labels, a < g.numberOfNodes := by
    intro a ha; rw [hlab] at ha; exact List.mem_range.1 ha
  refine ⟨?_, ?_⟩
  · intro b hb
    obtain ⟨⟨u, v, d⟩, he, rfl⟩ := List.mem_map.1 hb
    have h1 := Graph.mem_edges g hw u v d he
    have hu := hlt u (NxE.mem_labels_of_mem_nbrsD h1)
    have hv := hlt v (NxE.WF.closedD hw h1)
    have hne := NxE.Simple.neD hs h1
    simp only [bondRec]
    omega
  · have := NxE.edges_norm_nodup hw
    unfold bondDict
    unfold List.Nodup at this ⊢
    rw [List.pairwise_map] at this
    rw [List.pairwise_map, List.pairwise_map]
    refine this.imp ?_
    rintro ⟨u, v, d⟩ ⟨u', v', d'⟩ hne hc
    apply hne
    rw [NxE.norm_eq_norm_iff]
    simp only [bondRec] at hc
    by_cases h1 : (u : Int) ≤ v <;> by_cases h2 : (u' : Int) ≤ v' <;>
      simp only [h1, h2, if_true, if_false, Prod.mk.injEq] at hc <;> omega

theorem node_getElem (g : Graph) (hlab : g.labels = List.range g.numberOfNodes) (n : Node) (hn : n ∈ g.nodes) :
    ∃ (h : n.id < (atomDict g).length), ((atomDict g)[n.id]).2 = atomRec n := by
  obtain ⟨i, hi, rfl⟩ := List.getElem_of_mem hn
  have hid : (g.nodes[i]).id = i := by
    have h1 : g.labels[i]'(by simpa [Graph.labels] using hi) = (g.nodes[i]).id := by simp [Graph.labels]
    rw [← h1]
    simp [hlab]
  have hi' : i < (atomDict g).length := by rw [atomDict_length]; exact hi
  refine ⟨by rw [hid]; exact hi', ?_⟩
  simp only [hid]
  simp [atomDict]

theorem addInvariantCode_atomRec (n : Node) :
    addInvariantCode (atomRec n) = .ok (readBackAtom n.attrs (zOf n)) := rfl

end WR

/-- **Write, then read.** -/
theorem write_read (g : Graph) (hw : g.WF) (hs : g.Simple) (hlab : g.labels = List.range g.numberOfNodes)
    (hatoms : ∀ n ∈ g.nodes, WritableAtom n)
    (hbonds : ∀ n ∈ g.nodes, ∀ e ∈ n.nbrs, ∀ bt, e.2.btype = some bt → (intRepr bt).length ≤ intMaxStrDigits)
    (hsize : (natRepr (g.numberOfNodes + g.numberOfEdges + 1)).length ≤ intMaxStrDigits)
    (hdr : Str) (hh : GoodHeader hdr) :
    ∃ lines g', graphToMolfileLines g hdr = .ok lines ∧
      (∀ l ∈ lines, l.length ≤ 79 ∨ l = hdr) ∧
      graphFromMolfileText (joinLines lines) = .ok g' ∧
      g'.labels = g.labels ∧ g'.WF ∧ g'.Simple ∧
      (∀ n ∈ g.nodes, ∃ z, atomicNumberOf ((n.attrs.sym).getD []) = .ok z ∧
          g'.attrs? n.id = some (readBackAtom n.attrs z)) ∧
      (∀ i j bt, (j, ({ btype := some bt } : Bond)) ∈ g'.nbrsD i ↔
          ∃ d, (j, d) ∈ g.nbrsD i ∧ d.btype.getD 1 = bt) := by
  have hb := WR.bounds g hw hlab hbonds hsize
  have ha : ∀ n ∈ g.nodes, WR.AtomFacts n := fun n hn => WR.atomFacts n (hatoms n hn) (hb.ids n hn)
  have hgood := WR.logicalToks_good g ha
  obtain ⟨g', post, hgfm, hl', hw', hs', hat', hnb'⟩ := graphFromMolecule_spec (WR.atomDict g) (WR.bondDict g.edges)
    (WR.atomDict_consecutive g hlab) (WR.bondDict_good g hw hs hlab) (by
      intro a ha'
      obtain ⟨n, -, rfl⟩ := List.mem_map.1 ha'
      rfl)
  refine ⟨WR.physLines hdr (WR.logicalToks g), g', WR.writer_shape g hdr ha, WR.physLines_length hdr _, ?_, ?_, hw', hs',
    ?_, ?_⟩
  · unfold graphFromMolfileText
    simp only [WR.physLines_split hdr hh _ hgood]
    have h3 : getIdx (WR.physLines hdr (WR.logicalToks g)) 3 = .ok WR.line3 := by
      simp [getIdx, WR.physLines, WR.hdrLines]
    simp only [h3, LineM.ok_bind, WR.line3_version, beq_self_eq_true, if_true,
      WR.graphAttributes_eval g hdr hh hw ha hb, hgfm]
    rfl
  · rw [hl', WR.atomDict_length, hlab]
  · intro n hn
    obtain ⟨hi, hrec⟩ := WR.node_getElem g hlab n hn
    obtain ⟨x, hx1, hx2⟩ := hat' n.id hi
    rw [hrec, WR.addInvariantCode_atomRec] at hx1
    refine ⟨WR.zOf n, (ha n hn).z, ?_⟩
    rw [hx2, ← Except.ok.inj hx1]
  · intro i j bt
    rw [hnb']
    constructor
    · rintro (h | h)
      · obtain ⟨⟨u, v, d⟩, he, hr⟩ := List.mem_map.1 h
        simp only [WR.bondRec, Prod.mk.injEq, Bond.mk.injEq, Option.some.injEq] at hr
        obtain ⟨⟨hu, hv⟩, hbt, -⟩ := hr
        have hu' : u = i := by omega
        have hv' : v = j := by omega
        subst hu' hv'
        exact ⟨d, Graph.mem_edges g hw _ _ _ he, hbt⟩
      · obtain ⟨⟨u, v, d⟩, he, hr⟩ := List.mem_map.1 h
        simp only [WR.bondRec, Prod.mk.injEq, Bond.mk.injEq, Option.some.injEq] at hr
        obtain ⟨⟨hu, hv⟩, hbt, -⟩ := hr
        have hu' : u = j := by omega
        have hv' : v = i := by omega
        subst hu' hv'
        exact ⟨d, NxE.WF.symmD hw (Graph.mem_edges g hw _ _ _ he), hbt⟩
    · rintro ⟨d, hd, hbt⟩
      rcases Graph.edges_complete g hw i j d hd with he | he
      · left
        exact List.mem_map.2 ⟨(i, j, d), he, by simp [WR.bondRec, hbt]⟩
      · right
        exact List.mem_map.2 ⟨(j, i, d), he, by simp [WR.bondRec, hbt]⟩

end Tucan
