import TucanProofs.Lemmas.WriteReadAny
import TucanProofs.Lemmas.RoundTripPipeline
import TucanProofs.Lemmas.ParserOutput
/-!
# string → graph → molfile → graph → string

`write_read_any_listing` says what the graph read back from a written molfile looks like, node by node.
Here it is turned into the relation the pipeline is invariant under: for a molecule graph of chemistry-level
atoms the graph read back is the same molecule (`Iso SameIdent pos`, `pos` the listing position), so it gets
the same TUCAN string; in particular the chain string → graph → molfile → graph → string returns the string it
started from.
-/
namespace Tucan

/-- the listing position of a label -/
def listPos (g : Graph) (a : Nat) : Nat := (indexOf? a g.labels).getD 0

namespace Chain

theorem listPos_node (g : Graph) (hw : g.WF) (i : Nat) (hi : i < g.nodes.length) :
    listPos g g.nodes[i].id = i := by
  have hi' : i < g.labels.length := by simpa [Graph.labels] using hi
  have h := indexOf?_getElem g.labels i hi' hw.nodup
  have e : g.labels[i] = g.nodes[i].id := by simp [Graph.labels]
  rw [e] at h
  simp [listPos, h]

theorem listPos_spec (g : Graph) (a : Nat) (ha : a ∈ g.labels) :
    ∃ i, ∃ (h : i < g.nodes.length), listPos g a = i ∧ g.nodes[i].id = a := by
  obtain ⟨i, hi, hlt, hget⟩ := indexOf?_of_mem a g.labels ha
  have hlt' : i < g.nodes.length := by simpa [Graph.labels] using hlt
  refine ⟨i, hlt', by simp [listPos, hi], ?_⟩
  rw [List.getElem?_eq_getElem hlt] at hget
  simpa [Graph.labels] using hget

theorem listPos_inj (g : Graph) : ∀ a ∈ g.labels, ∀ b ∈ g.labels, listPos g a = listPos g b → a = b := by
  intro a ha b hb h
  obtain ⟨i, hi, ei, hia⟩ := listPos_spec g a ha
  obtain ⟨j, hj, ej, hjb⟩ := listPos_spec g b hb
  have : i = j := by omega
  subst this
  rw [← hia, ← hjb]

theorem map_listPos (g : Graph) (hw : g.WF) : g.labels.map (listPos g) = List.range g.nodes.length := by
  apply List.ext_getElem
  · simp [Graph.labels]
  · intro i h1 h2
    have hi : i < g.nodes.length := by simpa [Graph.labels] using h1
    simp only [List.getElem_map, List.getElem_range, Graph.labels]
    exact listPos_node g hw i hi

theorem attrs?_node (g : Graph) (hw : g.WF) (i : Nat) (hi : i < g.nodes.length) :
    g.attrs? g.nodes[i].id = some g.nodes[i].attrs := by
  have := (NxE.gfind?_some_iff hw.nodup g.nodes[i].id g.nodes[i]).2 ⟨List.getElem_mem hi, rfl⟩
  simp [Graph.attrs?, this]

/-- the atomic number the writer's table lookup finds for a chemistry-level atom is its `z` -/
theorem atomicNumberOf_chem {x : Atom} (hx : MolAtom x) {z z' : Int} (hz : x.sym = symOfZ z)
    (h : atomicNumberOf (x.sym.getD []) = .ok z') : z' = z := by
  obtain ⟨s, hs⟩ := hx.sym
  rw [hs] at hz
  obtain ⟨-, he, h1⟩ := RoundTrip.symOfZ_spec hz.symm
  rw [hs, Option.getD_some] at h
  unfold elementZ at he
  unfold atomicNumberOf at h
  rw [he] at h
  have := Except.ok.inj h
  omega

theorem sameIdent_readBack {x : Atom} (hx : MolAtom x) {z' : Int}
    (h : atomicNumberOf (x.sym.getD []) = .ok z') : SameIdent x (readBackAtom x z') := by
  obtain ⟨z, hz, hsym, hinv, -, -⟩ := hx.chem
  have := atomicNumberOf_chem hx hsym h
  subst this
  exact ⟨hz, rfl, rfl, rfl, hinv⟩

/-- `write_read_any_listing` with the bonds of the graph read back characterised whatever their record
(the final assembly of that proof, redone for all bond records) -/
theorem write_read_listing_adj (g : Graph) (hw : g.WF) (hs : g.Simple)
    (hlab : g.labels.Perm (List.range g.numberOfNodes))
    (hatoms : ∀ n ∈ g.nodes, WritableAtom n)
    (hbonds : ∀ n ∈ g.nodes, ∀ e ∈ n.nbrs, ∀ bt, e.2.btype = some bt → (intRepr bt).length ≤ intMaxStrDigits)
    (hsize : (natRepr (g.numberOfNodes + g.numberOfEdges + 1)).length ≤ intMaxStrDigits)
    (hdr : Str) (hh : GoodHeader hdr) :
    ∃ lines g', graphToMolfileLines g hdr = .ok lines ∧
      graphFromMolfileText (joinLines lines) = .ok g' ∧
      g'.labels = List.range g.numberOfNodes ∧ g'.WF ∧ g'.Simple ∧
      (∀ i (hi : i < g.nodes.length), ∃ z, atomicNumberOf ((g.nodes[i].attrs.sym).getD []) = .ok z ∧
          g'.attrs? i = some (readBackAtom g.nodes[i].attrs z)) ∧
      (∀ i j (hi : i < g.nodes.length) (hj : j < g.nodes.length),
          (∃ d', (j, d') ∈ g'.nbrsD i) ↔ ∃ d, (g.nodes[j].id, d) ∈ g.nbrsD g.nodes[i].id) := by
  have hb := WRA.bounds g hw hlab hbonds hsize
  have ha : ∀ n ∈ g.nodes, WR.AtomFacts n := fun n hn => WR.atomFacts n (hatoms n hn) (hb.ids n hn)
  have hgood := WR.logicalToks_good g ha
  obtain ⟨g', post, hgfm, hl', hw', hs', hat', hnb'⟩ := graphFromMolecule_keys (WR.atomDict g) (WR.bondDict g.edges)
    (WRA.atomDict_keys_nodup g hw) (WRA.bondDict_goodKeys g hw hs) (by
      intro a ha'
      obtain ⟨n, -, rfl⟩ := List.mem_map.1 ha'
      rfl)
  refine ⟨WR.physLines hdr (WR.logicalToks g), g', WR.writer_shape g hdr ha, ?_, ?_, hw', hs',
    ?_, ?_⟩
  · unfold graphFromMolfileText
    simp only [WR.physLines_split hdr hh _ hgood]
    have h3 : getIdx (WR.physLines hdr (WR.logicalToks g)) 3 = .ok WR.line3 := by
      simp [getIdx, WR.physLines, WR.hdrLines]
    simp only [h3, LineM.ok_bind, WR.line3_version, beq_self_eq_true, if_true,
      WR.graphAttributes_eval g hdr hh hw ha hb, hgfm]
    rfl
  · rw [hl', WR.atomDict_length]
  · intro i hi
    obtain ⟨hi', hrec⟩ := WRA.atomDict_getElem g i hi
    obtain ⟨x, hx1, hx2⟩ := hat' i hi'
    rw [hrec, WR.addInvariantCode_atomRec] at hx1
    refine ⟨WR.zOf g.nodes[i], (ha _ (List.getElem_mem hi)).z, ?_⟩
    rw [hx2, ← Except.ok.inj hx1]
  · intro i j hi hj
    constructor
    · rintro ⟨d', hd'⟩
      rw [hnb'] at hd'
      obtain ⟨k, l, hk, hl, h | h⟩ := hd'
      · have ek := WRA.key_of_pos g hw i hi k hk
        have el := WRA.key_of_pos g hw j hj l hl
        subst ek el
        obtain ⟨⟨u, v, d⟩, he, hr⟩ := List.mem_map.1 h
        simp only [WR.bondRec, Prod.mk.injEq] at hr
        obtain ⟨⟨hu, hv⟩, -⟩ := hr
        have hu' : u = g.nodes[i].id := by omega
        have hv' : v = g.nodes[j].id := by omega
        subst hu' hv'
        exact ⟨d, Graph.mem_edges g hw _ _ _ he⟩
      · have ek := WRA.key_of_pos g hw i hi k hk
        have el := WRA.key_of_pos g hw j hj l hl
        subst ek el
        obtain ⟨⟨u, v, d⟩, he, hr⟩ := List.mem_map.1 h
        simp only [WR.bondRec, Prod.mk.injEq] at hr
        obtain ⟨⟨hu, hv⟩, -⟩ := hr
        have hu' : u = g.nodes[j].id := by omega
        have hv' : v = g.nodes[i].id := by omega
        subst hu' hv'
        exact ⟨d, NxE.WF.symmD hw (Graph.mem_edges g hw _ _ _ he)⟩
    · rintro ⟨d, hd⟩
      refine ⟨{ btype := some (d.btype.getD 1) }, ?_⟩
      rw [hnb']
      refine ⟨(g.nodes[i].id : Int), (g.nodes[j].id : Int), WRA.keyPos_node g hw i hi, WRA.keyPos_node g hw j hj, ?_⟩
      rcases Graph.edges_complete g hw _ _ d hd with he | he
      · left
        exact List.mem_map.2 ⟨(g.nodes[i].id, g.nodes[j].id, d), he, by simp [WR.bondRec]⟩
      · right
        exact List.mem_map.2 ⟨(g.nodes[j].id, g.nodes[i].id, d), he, by simp [WR.bondRec]⟩

end Chain

/-- **The graph read back is the written molecule.**  For a graph whose atoms are molecule atoms
(`MolAtoms`) writable in the format's ranges, listed in any order: writing and reading back gives a graph
`g'` with `Iso SameIdent (listPos g) g g'`. -/
theorem write_read_iso (g : Graph) (hw : g.WF) (hs : g.Simple)
    (hlab : g.labels.Perm (List.range g.numberOfNodes)) (hmol : g.MolAtoms)
    (hatoms : ∀ n ∈ g.nodes, WritableAtom n)
    (hbonds : ∀ n ∈ g.nodes, ∀ e ∈ n.nbrs, ∀ bt, e.2.btype = some bt → (intRepr bt).length ≤ intMaxStrDigits)
    (hsize : (natRepr (g.numberOfNodes + g.numberOfEdges + 1)).length ≤ intMaxStrDigits)
    (hdr : Str) (hh : GoodHeader hdr) :
    ∃ lines g', graphToMolfileLines g hdr = .ok lines ∧
      graphFromMolfileText (joinLines lines) = .ok g' ∧ g'.WF ∧ g'.Simple ∧
      Iso SameIdent (listPos g) g g' := by
  obtain ⟨lines, g', hwr, hrd, hl', hw', hs', hat', hnb'⟩ :=
    Chain.write_read_listing_adj g hw hs hlab hatoms hbonds hsize hdr hh
  have hn : g.numberOfNodes = g.nodes.length := rfl
  rw [hn] at hl'
  refine ⟨lines, g', hwr, hrd, hw', hs', ?_, ?_, ?_, ?_⟩
  · rw [hl', Chain.map_listPos g hw]
  · exact Chain.listPos_inj g
  · intro a ha
    obtain ⟨i, hi, ei, hia⟩ := Chain.listPos_spec g a ha
    have hx := Chain.attrs?_node g hw i hi
    rw [hia] at hx
    obtain ⟨z', hz', hy⟩ := hat' i hi
    rw [ei]
    exact ⟨_, _, hx, hy, Chain.sameIdent_readBack (hmol a ha _ hx) hz'⟩
  · intro a ha
    obtain ⟨i, hi, ei, hia⟩ := Chain.listPos_spec g a ha
    rw [ei]
    have hnd' : (g'.nbrs i).Nodup := by rw [NxE.nbrs_eq_map]; exact NxE.WF.nodupD hw' i
    have hmemlab : ∀ b ∈ g.nbrs a, b ∈ g.labels := by
      intro b hb
      obtain ⟨d, hd⟩ := (NxE.adj_iff g a b).1 hb
      exact NxE.WF.closedD hw hd
    have hnd : ((g.nbrs a).map (listPos g)).Nodup := by
      refine NxRelabel.nodup_map_of_injOn _ (by rw [NxE.nbrs_eq_map]; exact NxE.WF.nodupD hw a) ?_
      intro b hb c hc
      exact Chain.listPos_inj g b (hmemlab b hb) c (hmemlab c hc)
    refine (List.perm_ext_iff_of_nodup hnd' hnd).2 ?_
    intro j
    constructor
    · intro hj
      obtain ⟨d', hd'⟩ := (NxE.adj_iff g' i j).1 hj
      have hjl : j < g.nodes.length := by
        have := NxE.WF.closedD hw' hd'
        rw [hl'] at this
        exact List.mem_range.1 this
      obtain ⟨d, hd⟩ := (hnb' i j hi hjl).1 ⟨d', hd'⟩
      rw [hia] at hd
      exact List.mem_map.2 ⟨g.nodes[j].id, (NxE.adj_iff g a _).2 ⟨d, hd⟩, Chain.listPos_node g hw j hjl⟩
    · intro hj
      obtain ⟨b, hb, rfl⟩ := List.mem_map.1 hj
      obtain ⟨j, hjl, ej, hjb⟩ := Chain.listPos_spec g b (hmemlab b hb)
      rw [ej]
      obtain ⟨d, hd⟩ := (NxE.adj_iff g a b).1 hb
      rw [← hia, ← hjb] at hd
      obtain ⟨d', hd'⟩ := (hnb' i j hi hjl).2 ⟨d, hd⟩
      exact (NxE.adj_iff g' i j).2 ⟨d', hd'⟩

/-- … hence the same TUCAN string, for every oracle meeting the bliss contract -/
theorem write_read_same_string (O : CanonOracle) (g : Graph) (hw : g.WF) (hs : g.Simple)
    (hlab : g.labels.Perm (List.range g.numberOfNodes)) (hmol : g.MolAtoms)
    (hatoms : ∀ n ∈ g.nodes, WritableAtom n)
    (hbonds : ∀ n ∈ g.nodes, ∀ e ∈ n.nbrs, ∀ bt, e.2.btype = some bt → (intRepr bt).length ≤ intMaxStrDigits)
    (hsize : (natRepr (g.numberOfNodes + g.numberOfEdges + 1)).length ≤ intMaxStrDigits)
    (hdr : Str) (hh : GoodHeader hdr) (lines : List Str) (g' : Graph)
    (hwr : graphToMolfileLines g hdr = .ok lines) (hrd : graphFromMolfileText (joinLines lines) = .ok g')
    (s s' : Str) (h : tucanOf O.order g = .ok s) (h' : tucanOf O.order g' = .ok s') : s = s' := by
  obtain ⟨lines0, g0, hwr0, hrd0, hw', hs', iso⟩ := write_read_iso g hw hs hlab hmol hatoms hbonds hsize hdr hh
  rw [hwr] at hwr0
  have := Except.ok.inj hwr0
  subst this
  rw [hrd] at hrd0
  have := Except.ok.inj hrd0
  subst this
  exact tucan_invariant O iso (fun a ha x hx => (hmol a ha x hx).chem) hw hs hw' hs' h h'

/-- **The chain.**  Start from the TUCAN string `s` of a molecule, parse it, write the parsed graph as a
molfile, read the molfile, run the pipeline on what was read: the result is `s` again.  (The parsed graph
must be writable: radicals within the format's range 1–3.) -/
theorem string_molfile_string (O : CanonOracle) (g0 : Graph) (hw0 : g0.WF) (hs0 : g0.Simple) (hmol0 : g0.MolAtoms)
    (hsize0 : (natRepr (g0.numberOfNodes + 1)).length ≤ intMaxStrDigits)
    (s : Str) (h0 : tucanOf O.order g0 = .ok s)
    (H : Graph) (hp : graphFromTucan s = .ok H)
    (hatoms : ∀ n ∈ H.nodes, WritableAtom n)
    (hbonds : ∀ n ∈ H.nodes, ∀ e ∈ n.nbrs, ∀ bt, e.2.btype = some bt → (intRepr bt).length ≤ intMaxStrDigits)
    (hsize : (natRepr (H.numberOfNodes + H.numberOfEdges + 1)).length ≤ intMaxStrDigits)
    (hdr : Str) (hh : GoodHeader hdr) (lines : List Str) (g' : Graph)
    (hwr : graphToMolfileLines H hdr = .ok lines) (hrd : graphFromMolfileText (joinLines lines) = .ok g')
    (s' : Str) (h' : tucanOf O.order g' = .ok s') : s' = s := by
  obtain ⟨H0, τ, hp0, iso0, hl, Hw, Hs, Hm⟩ := pipeline_roundtrip O.order O.perm g0 hw0 hs0 hmol0 hsize0 s h0
  rw [hp] at hp0
  have := Except.ok.inj hp0
  subst this
  have hlab : H.labels.Perm (List.range H.numberOfNodes) := by
    have : H.numberOfNodes = g0.numberOfNodes := by
      have := congrArg List.length hl
      simpa [Graph.labels, Graph.numberOfNodes] using this
    rw [this, hl]
  obtain ⟨lines1, g1, hwr1, hrd1, hw', hs', iso⟩ := write_read_iso H Hw Hs hlab Hm hatoms hbonds hsize hdr hh
  rw [hwr] at hwr1
  have := Except.ok.inj hwr1
  subst this
  rw [hrd] at hrd1
  have := Except.ok.inj hrd1
  subst this
  have isoC := iso0.trans (fun x y z => sameIdent_trans' x y z) iso
  exact (tucan_invariant O isoC (fun a ha x hx => (hmol0 a ha x hx).chem) hw0 hs0 hw' hs' h0 h').symm

end Tucan
