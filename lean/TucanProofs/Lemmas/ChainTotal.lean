import TucanProofs.Lemmas.Chain
import TucanProofs.Lemmas.Totality
import TucanProofs.Examples
import TucanProofs.Lemmas.AstDenotation
/-!
# The write / read chain, without assuming what it should deliver

* `write_read_bond_records`: every adjacency record of the graph read back carries a bond type and nothing
  else — together with `C09_write_read_any_listing` (which characterises the records of that form) the bonds of
  the graph read back are exactly the written ones with exactly the written types.
* `string_molfile_string_total`: the chain string → graph → molfile → graph → string with *existence*: the parsed
  graph is writable as soon as its radicals are in the format's range, writing returns, reading returns, the
  pipeline returns, and what it returns is the original string.
* `exGraph_writable`: the concrete graph of `Examples.lean` meets every hypothesis of `C09_write_read_any_listing`.
-/
namespace Tucan

namespace ChainT

/-- the final assembly of `Chain.write_read_listing_adj`, exposing the form of the bond records -/
theorem write_read_records (g : Graph) (hw : g.WF) (hs : g.Simple)
    (hlab : g.labels.Perm (List.range g.numberOfNodes))
    (hatoms : ∀ n ∈ g.nodes, WritableAtom n)
    (hbonds : ∀ n ∈ g.nodes, ∀ e ∈ n.nbrs, ∀ bt, e.2.btype = some bt → (intRepr bt).length ≤ intMaxStrDigits)
    (hsize : (natRepr (g.numberOfNodes + g.numberOfEdges + 1)).length ≤ intMaxStrDigits)
    (hdr : Str) (hh : GoodHeader hdr) :
    ∃ lines g', graphToMolfileLines g hdr = .ok lines ∧
      graphFromMolfileText (joinLines lines) = .ok g' ∧
      (∀ (i j : Nat) (d' : Bond), (j, d') ∈ g'.nbrsD i → ∃ bt : Int, d' = { btype := some bt }) := by
  have hb := WRA.bounds g hw hlab hbonds hsize
  have ha : ∀ n ∈ g.nodes, WR.AtomFacts n := fun n hn => WR.atomFacts n (hatoms n hn) (hb.ids n hn)
  have hgood := WR.logicalToks_good g ha
  obtain ⟨g', post, hgfm, hl', hw', hs', hat', hnb'⟩ := graphFromMolecule_keys (WR.atomDict g) (WR.bondDict g.edges)
    (WRA.atomDict_keys_nodup g hw) (WRA.bondDict_goodKeys g hw hs) (by
      intro a ha'
      obtain ⟨n, -, rfl⟩ := List.mem_map.1 ha'
      rfl)
  refine ⟨WR.physLines hdr (WR.logicalToks g), g', WR.writer_shape g hdr ha, ?_, ?_⟩
  · unfold graphFromMolfileText
    simp only [WR.physLines_split hdr hh _ hgood]
    have h3 : getIdx (WR.physLines hdr (WR.logicalToks g)) 3 = .ok WR.line3 := by
      simp [getIdx, WR.physLines, WR.hdrLines]
    simp only [h3, LineM.ok_bind, WR.line3_version, beq_self_eq_true, if_true,
      WR.graphAttributes_eval g hdr hh hw ha hb, hgfm]
    rfl
  · intro i j d' hd'
    rw [hnb'] at hd'
    obtain ⟨k, l, -, -, h | h⟩ := hd'
    · obtain ⟨⟨u, v, d⟩, -, hr⟩ := List.mem_map.1 h
      simp only [WR.bondRec, Prod.mk.injEq] at hr
      exact ⟨_, hr.2.symm⟩
    · obtain ⟨⟨u, v, d⟩, -, hr⟩ := List.mem_map.1 h
      simp only [WR.bondRec, Prod.mk.injEq] at hr
      exact ⟨_, hr.2.symm⟩

theorem zeroCoord_ok :
    IsToken zeroCoord ∧ pyFloatOk zeroCoord = true ∧ endsWithChar zeroCoord '-' = false := by
  refine ⟨⟨by decide, by decide⟩, by decide, by decide⟩

/-- a molecule atom without charge and coordinates, with its radical in the format's range, is writable -/
theorem writable_of_mol (n : Node) (hm : MolAtom n.attrs)
    (hc : n.attrs.chg = none ∧ n.attrs.x = none ∧ n.attrs.y = none ∧ n.attrs.zc = none)
    (hrad : ∀ r, n.attrs.rad = some r → r ≤ 3)
    (hmass : ∀ m, n.attrs.mass = some m → (intRepr m).length ≤ intMaxStrDigits) : WritableAtom n := by
  obtain ⟨hchg, hx, hy, hz⟩ := hc
  refine ⟨?_, ?_, ?_, ?_, ?_⟩
  · obtain ⟨z, -, hsym, -, -, -⟩ := hm.chem
    obtain ⟨s, hs⟩ := hm.sym
    rw [hs] at hsym
    exact ⟨s, hs, (RoundTrip.symOfZ_spec hsym.symm).1⟩
  · intro t ht
    rw [hx, hy, hz] at ht
    have : t = zeroCoord := by simpa using ht
    subst this
    exact zeroCoord_ok
  · intro c h
    rw [hchg] at h
    cases h
  · intro r h
    exact ⟨(hm.radPos r h).1, hrad r h⟩
  · intro m h
    exact ⟨(hm.massPos m h).1, hmass m h⟩

end ChainT

/-- every bond of the graph read back has a record of the form `{ btype := some bt }` -/
theorem write_read_bond_records (g : Graph) (hw : g.WF) (hs : g.Simple)
    (hlab : g.labels.Perm (List.range g.numberOfNodes))
    (hatoms : ∀ n ∈ g.nodes, WritableAtom n)
    (hbonds : ∀ n ∈ g.nodes, ∀ e ∈ n.nbrs, ∀ bt, e.2.btype = some bt → (intRepr bt).length ≤ intMaxStrDigits)
    (hsize : (natRepr (g.numberOfNodes + g.numberOfEdges + 1)).length ≤ intMaxStrDigits)
    (hdr : Str) (hh : GoodHeader hdr) (lines : List Str) (g' : Graph)
    (hwr : graphToMolfileLines g hdr = .ok lines) (hrd : graphFromMolfileText (joinLines lines) = .ok g') :
    ∀ (i j : Nat) (d' : Bond), (j, d') ∈ g'.nbrsD i → ∃ bt : Int, d' = { btype := some bt } := by
  obtain ⟨lines0, g0, hwr0, hrd0, hrec⟩ := ChainT.write_read_records g hw hs hlab hatoms hbonds hsize hdr hh
  rw [hwr] at hwr0
  have := Except.ok.inj hwr0
  subst this
  rw [hrd] at hrd0
  have := Except.ok.inj hrd0
  subst this
  exact hrec

/-- **The chain, with existence.**  Only the radical range (a molfile cannot state a radical above 3), the width
of bond-type numerals and of the counts (CPython's integer-conversion limit) are assumed about the parsed graph; that its atoms are
writable, that writing, reading and the pipeline return, and that the result is `s`, are conclusions. -/
theorem string_molfile_string_total (O : CanonOracle) (g0 : Graph) (hw0 : g0.WF) (hs0 : g0.Simple)
    (hne0 : g0.labels ≠ []) (hmol0 : g0.MolAtoms)
    (hsize0 : (natRepr (g0.numberOfNodes + 1)).length ≤ intMaxStrDigits)
    (s : Str) (h0 : tucanOf O.order g0 = .ok s)
    (H : Graph) (hp : graphFromTucan s = .ok H)
    (hrad : ∀ n ∈ H.nodes, ∀ r, n.attrs.rad = some r → r ≤ 3)
    (hbonds : ∀ n ∈ H.nodes, ∀ e ∈ n.nbrs, ∀ bt, e.2.btype = some bt → (intRepr bt).length ≤ intMaxStrDigits)
    (hsize : (natRepr (H.numberOfNodes + H.numberOfEdges + 1)).length ≤ intMaxStrDigits)
    (hdr : Str) (hh : GoodHeader hdr) :
    (∀ n ∈ H.nodes, WritableAtom n) ∧
    ∃ lines g', graphToMolfileLines H hdr = .ok lines ∧ graphFromMolfileText (joinLines lines) = .ok g' ∧
      tucanOf O.order g' = .ok s := by
  obtain ⟨H0, τ, hp0, iso0, hl, Hw, Hs, Hm⟩ := pipeline_roundtrip O.order O.perm g0 hw0 hs0 hmol0 hsize0 s h0
  rw [hp] at hp0
  have := Except.ok.inj hp0
  subst this
  obtain ⟨toks, ast, -, -, -, -, -, -, -, -, hfields⟩ := graphFromTucan_denotes s H hp
  have hatoms : ∀ n ∈ H.nodes, WritableAtom n := by
    intro n hn
    obtain ⟨i, hi, rfl⟩ := List.getElem_of_mem hn
    have hx := Chain.attrs?_node H Hw i hi
    have hmem : H.nodes[i].id ∈ H.labels := List.mem_map.2 ⟨_, hn, rfl⟩
    exact ChainT.writable_of_mol _ (Hm _ hmem _ hx) (hfields _ _ hx).2.2 (hrad _ hn) (fun m hm' => ((Hm _ hmem _ hx).massPos m hm').2)
  have hnn : H.numberOfNodes = g0.numberOfNodes := by
    have := congrArg List.length hl
    simpa [Graph.labels, Graph.numberOfNodes] using this
  have hlab : H.labels.Perm (List.range H.numberOfNodes) := by
    rw [hnn, hl]
  obtain ⟨lines, g', hwr, hrd, hl', hw', hs', hat', -⟩ :=
    Chain.write_read_listing_adj H Hw Hs hlab hatoms hbonds hsize hdr hh
  have hpos : 0 < H.numberOfNodes := by
    rw [hnn]
    cases hnodes : g0.nodes with
    | nil => exact absurd (by simp [Graph.labels, hnodes]) hne0
    | cons a t => simp [Graph.numberOfNodes, hnodes]
  obtain ⟨s', hs'⟩ := pipeline_total O.order O.perm g' hw' hs' (by
      rw [hl']
      intro h
      have := congrArg List.length h
      simp at this
      omega) (by
      intro a ha
      rw [hl'] at ha
      have hlt : a < H.nodes.length := List.mem_range.1 ha
      obtain ⟨z, -, hz⟩ := hat' a hlt
      exact ⟨_, hz, rfl, rfl⟩)
  have := string_molfile_string O g0 hw0 hs0 hmol0 hsize0 s h0 H hp hatoms hbonds hsize hdr hh lines g' hwr hrd s' hs'
  subst this
  exact ⟨hatoms, lines, g', hwr, hrd, hs'⟩

/-- non-vacuity: the concrete graph of `Examples.lean` (three atoms listed in the order 2, 0, 1, an isotope
label, a charge, a double bond) meets the hypotheses of `C09_write_read_any_listing` -/
theorem exGraph_writable :
    exGraph.labels.Perm (List.range exGraph.numberOfNodes) ∧
    (∀ n ∈ exGraph.nodes, WritableAtom n) ∧
    (∀ n ∈ exGraph.nodes, ∀ e ∈ n.nbrs, ∀ bt, e.2.btype = some bt → (intRepr bt).length ≤ intMaxStrDigits) ∧
    (natRepr (exGraph.numberOfNodes + exGraph.numberOfEdges + 1)).length ≤ intMaxStrDigits ∧
    GoodHeader "  TUCAN".toList := by
  refine ⟨by decide, ?_, ?_, by decide, ⟨by decide, by decide⟩⟩
  · intro n hn
    have hn' : n = ⟨2, exAtomO, [(1, { btype := some 2 })]⟩ ∨ n = ⟨0, exAtomC13, [(1, { btype := some 1 })]⟩ ∨
        n = ⟨1, exAtomC, [(0, { btype := some 1 }), (2, { btype := some 2 })]⟩ := by
      simpa [exGraph] using hn
    have hc : ∀ t ∈ [zeroCoord, zeroCoord, zeroCoord],
        IsToken t ∧ pyFloatOk t = true ∧ endsWithChar t '-' = false := by
      intro t ht
      have : t = zeroCoord := by simpa using ht
      subst this
      exact ChainT.zeroCoord_ok
    rcases hn' with rfl | rfl | rfl
    · exact ⟨⟨['O'], rfl, by decide⟩, hc, (by intro c h; cases h), (by intro c h; cases h), (by intro c h; cases h)⟩
    · refine ⟨⟨['C'], rfl, by decide⟩, hc, (by intro c h; cases h), (by intro c h; cases h), ?_⟩
      intro m h
      have : m = 13 := by simpa [exAtomC13] using h.symm
      subst this
      decide
    · refine ⟨⟨['C'], rfl, by decide⟩, hc, ?_, (by intro c h; cases h), (by intro c h; cases h)⟩
      intro c h
      have : c = 1 := by simpa [exAtomC] using h.symm
      subst this
      decide
  · intro n hn e he bt hbt
    have : bt = 1 ∨ bt = 2 := by
      simp [exGraph] at hn
      rcases hn with rfl | rfl | rfl <;> simp at he <;> rcases he with rfl | rfl <;> simp at hbt <;> omega
    rcases this with rfl | rfl <;> decide

end Tucan
