import TucanProofs.Lemmas.Hill
import TucanProofs.Lemmas.LexRender
import TucanProofs.Lemmas.Sentence
/-!
# S6 (string level) — the parser's front end reads back exactly what the serializer wrote

For the sorted molecule `m` the serializer writes `formula "/" tuples ["/" attributes]`.  Lexing that
string and running the recogniser succeeds and returns the syntax tree `astOf m`: the Hill-order items
with their counts, one tuple per bond with the 1-based indices in ascending order, one attribute block
per labelled atom.
-/
namespace Tucan

/-- the string `serialize_molecule` assembles from the three writers -/
def serializedText (m : Graph) : Str :=
  writeSumFormula m ++ '/' :: writeEdgeList m ++
    (if (writeNodeAttributes m).isEmpty then [] else '/' :: writeNodeAttributes m)

/-- the `key=value` pairs `_write_node_attributes` emits for one atom -/
def attrPairs (a : Atom) : List (Str × Str) :=
  (match a.mass with | some v => [("mass".toList, intRepr v)] | none => []) ++
  (match a.rad with | some v => [("rad".toList, intRepr v)] | none => [])

/-- the attribute blocks: atoms in label order that have a mass or a radical -/
def attrsAstOf (m : Graph) : List (Str × List (Str × Str)) :=
  (m.nodes.mergeSort fun a b => decide (a.id ≤ b.id)).filterMap fun n =>
    if (attrPairs n.attrs).isEmpty then none else some (natRepr (n.id + 1), attrPairs n.attrs)

/-- the syntax tree of the serialized molecule -/
def astOf (m : Graph) : Ast :=
  { formula := (hillItems (m.nodes.filterMap (·.attrs.sym))).map fun i => (i.1, countText i.2)
    tuples := (sortedEdges m).map fun e => (natRepr (e.1 + 1), natRepr (e.2 + 1))
    attrs := attrsAstOf m }

namespace SerTok

/-! ### number tokens -/

def d19 (c : Char) : Bool := decide ('1' ≤ c) && decide (c ≤ '9')

theorem isDigit_of_charIsDigit (c : Char) (h : c.isDigit = true) : isDigit c = true := by
  simp only [Char.isDigit, Bool.and_eq_true, decide_eq_true_eq] at h
  simp only [isDigit, Bool.and_eq_true, decide_eq_true_eq, Char.le_def]
  exact ⟨h.1, h.2⟩

theorem d19_digitChar (n : Nat) (h1 : 1 ≤ n) (h9 : n ≤ 9) : d19 n.digitChar = true := by
  have : n = 1 ∨ n = 2 ∨ n = 3 ∨ n = 4 ∨ n = 5 ∨ n = 6 ∨ n = 7 ∨ n = 8 ∨ n = 9 := by omega
  rcases this with rfl | rfl | rfl | rfl | rfl | rfl | rfl | rfl | rfl <;> decide

theorem toDigits_head (n : Nat) : 1 ≤ n → ∃ c r, Nat.toDigits 10 n = c :: r ∧ d19 c = true := by
  induction n using Nat.strongRecOn with
  | _ n ih =>
    intro h1
    by_cases h : n < 10
    · exact ⟨_, [], Nat.toDigits_of_lt_base h, d19_digitChar n h1 (by omega)⟩
    · obtain ⟨c, r, hcr, hc⟩ := ih (n / 10) (by omega) (by omega)
      refine ⟨c, r ++ [Nat.digitChar (n % 10)], ?_, hc⟩
      rw [Nat.toDigits_of_base_le (by omega) (by omega), hcr]; rfl

/-- a token the lexer produces for a positive decimal numeral -/
def NumTok (t : Tok) : Prop :=
  (∃ n, 1 ≤ n ∧ n ≤ 9 ∧ t = Tok.lit [n.digitChar]) ∨
  (∃ c r, t = Tok.big (c :: r) ∧ r ≠ [] ∧ d19 c = true ∧ r.all isDigit = true)

theorem numTok_natRepr (n : Nat) (h1 : 1 ≤ n) : NumTok (numTok (natRepr n)) := by
  rw [Hill.natRepr_eq]
  by_cases h : n < 10
  · left
    refine ⟨n, h1, by omega, ?_⟩
    rw [Nat.toDigits_of_lt_base h]; rfl
  · right
    obtain ⟨c, r, hcr, hc⟩ := toDigits_head n h1
    have hlen : ¬ (Nat.toDigits 10 n).length ≤ 1 := by
      rw [Nat.length_toDigits_le_iff (by omega) (by omega)]; omega
    have hne : (Nat.toDigits 10 n).length ≠ 1 := by omega
    refine ⟨c, r, ?_, ?_, hc, ?_⟩
    · rw [numTok, if_neg hne, hcr]
    · intro hr; rw [hcr, hr] at hlen; simp at hlen
    · rw [List.all_eq_true]
      intro x hx
      apply isDigit_of_charIsDigit
      exact Nat.isDigit_of_mem_toDigits (b := 10) (n := n) (by omega) (by omega) (by rw [hcr]; exact List.mem_cons_of_mem _ hx)

/-- everything the proof needs to know about a number token -/
def numOk (t : Tok) : Bool :=
  ValidTok t && isGtZero t && !isOneUpper t && !startsLower t && isNumberTok t

theorem digit_toks_ok : (List.range 9).all (fun i => numOk (Tok.lit [(i + 1).digitChar])) = true := by
  decide +kernel

theorem numOk_of_NumTok {t : Tok} (h : NumTok t) : numOk t = true := by
  rcases h with ⟨n, h1, h9, rfl⟩ | ⟨c, r, rfl, hr, hc, hd⟩
  · have := List.all_eq_true.mp digit_toks_ok (n - 1) (by simp; omega)
    have e : n - 1 + 1 = n := by omega
    rw [e] at this; exact this
  · have hc' : isLower c = false := by
      simp only [d19, Bool.and_eq_true, decide_eq_true_eq, Char.le_def] at hc
      simp only [isLower, Bool.and_eq_false_iff, decide_eq_false_iff_not, Char.le_def]
      left
      intro ha
      have h2 := UInt32.le_trans ha hc.2
      exact absurd h2 (by decide)
    simp only [d19] at hc
    simp [numOk, ValidTok, isGtZero, isOneUpper, startsLower, isNumberTok, Tok.text, hc, hd, hr, hc']


/-! ### the token list of the emitted string -/

def tupleToks (es : List (Nat × Nat)) : List Tok :=
  es.flatMap fun e => [tk "(", numTok (natRepr (e.1 + 1)), tk "-", numTok (natRepr (e.2 + 1)), tk ")"]

/-- `key=value` pairs joined by `,` -/
def pairToks : List (Str × Str) → List Tok
  | [] => []
  | [p] => [Tok.lit p.1, tk "=", numTok p.2]
  | p :: q :: r => Tok.lit p.1 :: tk "=" :: numTok p.2 :: tk "," :: pairToks (q :: r)

def blockToks (b : Str × List (Str × Str)) : List Tok :=
  tk "(" :: numTok b.1 :: tk ":" :: (pairToks b.2 ++ [tk ")"])

def attrToks (bs : List (Str × List (Str × Str))) : List Tok := bs.flatMap blockToks

def allToks (m : Graph) : List Tok :=
  formulaToks (hillItems (m.nodes.filterMap (·.attrs.sym))) ++ tk "/" :: (tupleToks (sortedEdges m) ++
    (if (attrsAstOf m).isEmpty then [] else tk "/" :: attrToks (attrsAstOf m)))

/-! ### (1) the text of the token list is the emitted string -/

theorem render_nil : render [] = [] := rfl

theorem text_lit (s : Str) : (Tok.lit s).text = s := rfl

theorem render_append (a b : List Tok) : render (a ++ b) = render a ++ render b := by
  simp [render]

theorem render_formulaToks (items : List (Str × Nat)) : render (formulaToks items) = formulaText items := by
  induction items with
  | nil => rfl
  | cons i its ih =>
    rw [Hill.formulaToks_cons, LexRender.render_cons, render_append, ih]
    simp only [formulaText, List.map_cons, List.flatten_cons, symCount, text_lit]
    split
    · simp [render, Hill.numTok_text]
    · simp [render]

theorem render_tupleToks (es : List (Nat × Nat)) :
    render (tupleToks es) =
      (es.map fun (a, b) => '(' :: natRepr (a + 1) ++ '-' :: natRepr (b + 1) ++ [')']).flatten := by
  induction es with
  | nil => rfl
  | cons e es ih =>
    have : tupleToks (e :: es) = [tk "(", numTok (natRepr (e.1 + 1)), tk "-", numTok (natRepr (e.2 + 1)), tk ")"]
        ++ tupleToks es := by simp [tupleToks]
    rw [this, render_append, ih]
    simp [render, Hill.numTok_text, Sentence.tk_lparen, Sentence.tk_rparen, Sentence.tk_minus, text_lit]

def pairText (p : Str × Str) : Str := p.1 ++ '=' :: p.2

theorem render_pairToks (ps : List (Str × Str)) :
    render (pairToks ps) = joinWith [','] (ps.map pairText) := by
  induction ps using pairToks.induct with
  | case1 => rfl
  | case2 p => simp [pairToks, render, joinWith, pairText, Hill.numTok_text, Sentence.tk_eq, text_lit]
  | case3 p q r ih =>
    rw [pairToks, List.map_cons, List.map_cons, joinWith, ← List.map_cons, ← ih]
    · simp [render, pairText, Hill.numTok_text, Sentence.tk_eq, Sentence.tk_comma, text_lit]
    · simp

theorem render_blockToks (b : Str × List (Str × Str)) :
    render (blockToks b) = '(' :: b.1 ++ ':' :: joinWith [','] (b.2.map pairText) ++ [')'] := by
  rw [blockToks, LexRender.render_cons, LexRender.render_cons, LexRender.render_cons, render_append,
    render_pairToks]
  simp [render, Hill.numTok_text, Sentence.tk_lparen, Sentence.tk_rparen, Sentence.tk_colon, text_lit]

/-- the text `_write_node_attributes` emits for one atom -/
def nodeStr (n : Node) : Str :=
  let av := (match n.attrs.mass with | some m => ["mass=".toList ++ intRepr m] | none => []) ++
            (match n.attrs.rad with | some r => ["rad=".toList ++ intRepr r] | none => [])
  if av.isEmpty then [] else
    '(' :: natRepr (n.id + 1) ++ ':' :: joinWith [','] av ++ [')']

def nodeBlock (n : Node) : Option (Str × List (Str × Str)) :=
  if (attrPairs n.attrs).isEmpty then none else some (natRepr (n.id + 1), attrPairs n.attrs)

theorem nodeStr_eq (n : Node) : nodeStr n = render (attrToks (nodeBlock n).toList) := by
  have key : ∀ b, render (attrToks [b]) = render (blockToks b) := by
    intro b; simp [attrToks]
  unfold nodeStr nodeBlock attrPairs
  cases n.attrs.mass <;> cases n.attrs.rad
  · rfl
  · simp only [List.nil_append, List.isEmpty_cons, Bool.false_eq_true, if_false, Option.toList_some,
      key, render_blockToks]
    rfl
  · simp only [List.append_nil, List.isEmpty_cons, Bool.false_eq_true, if_false, Option.toList_some,
      key, render_blockToks]
    rfl
  · simp only [List.cons_append, List.nil_append, List.isEmpty_cons, Bool.false_eq_true, if_false,
      Option.toList_some, key, render_blockToks]
    rfl

theorem writeNodeAttributes_eq (m : Graph) :
    writeNodeAttributes m = render (attrToks (attrsAstOf m)) := by
  have h1 : writeNodeAttributes m =
      ((m.nodes.mergeSort fun a b => decide (a.id ≤ b.id)).map nodeStr).flatten := rfl
  have h2 : attrsAstOf m = (m.nodes.mergeSort fun a b => decide (a.id ≤ b.id)).filterMap nodeBlock := rfl
  rw [h1, h2]
  generalize (m.nodes.mergeSort fun a b => decide (a.id ≤ b.id)) = ns
  induction ns with
  | nil => rfl
  | cons n ns ih =>
    rw [List.map_cons, List.flatten_cons, ih, nodeStr_eq, List.filterMap_cons]
    cases nodeBlock n with
    | none => rfl
    | some b => simp [attrToks, render_append]

theorem writeNodeAttributes_isEmpty (m : Graph) :
    (writeNodeAttributes m).isEmpty = (attrsAstOf m).isEmpty := by
  rw [writeNodeAttributes_eq]
  cases attrsAstOf m with
  | nil => rfl
  | cons b bs =>
    simp [attrToks, blockToks, render, Sentence.tk_lparen, text_lit]

theorem render_allToks (m : Graph) : render (allToks m) = serializedText m := by
  unfold allToks serializedText
  rw [render_append, LexRender.render_cons, render_append, render_formulaToks, render_tupleToks,
    ← writeSumFormula_eq, writeNodeAttributes_isEmpty]
  have : writeEdgeList m = ((sortedEdges m).map fun (a, b) =>
    '(' :: natRepr (a + 1) ++ '-' :: natRepr (b + 1) ++ [')']).flatten := rfl
  rw [this]
  cases h : (attrsAstOf m).isEmpty with
  | true => simp [render_nil]; rfl
  | false =>
    simp only [Bool.false_eq_true, if_false, LexRender.render_cons, ← writeNodeAttributes_eq,
      Sentence.tk_slash, text_lit]
    simp

/-! ### (2) every token is one the lexer can produce, and neighbours cannot merge -/

def headSafe : List Tok → Bool
  | [] => true
  | b :: _ => !startsLower b && !startsDigit b

/-- neither a one-letter symbol nor a number: anything may follow -/
def neutral (a : Tok) : Bool := !isOneUpper a && !isNumberTok a

def punctOk (t : Tok) : Bool := ValidTok t && neutral t && !startsLower t && !startsDigit t
def keyOk (t : Tok) : Bool := ValidTok t && neutral t && isKey t
def symOk (s : Str) : Bool :=
  literals.contains s && !digit1to9 s && !startsLower (Tok.lit s) && !startsDigit (Tok.lit s)

theorem punct_ok : [tk "/", tk "(", tk ")", tk "-", tk ":", tk ",", tk "="].all punctOk = true := by
  decide +kernel
theorem key_ok : [tk "mass", tk "rad"].all keyOk = true := by decide +kernel
theorem elementSyms_ok : elementSyms.all symOk = true := by decide +kernel

theorem ok_slash : punctOk (tk "/") = true := List.all_eq_true.mp punct_ok _ (by simp)
theorem ok_lparen : punctOk (tk "(") = true := List.all_eq_true.mp punct_ok _ (by simp)
theorem ok_rparen : punctOk (tk ")") = true := List.all_eq_true.mp punct_ok _ (by simp)
theorem ok_minus : punctOk (tk "-") = true := List.all_eq_true.mp punct_ok _ (by simp)
theorem ok_colon : punctOk (tk ":") = true := List.all_eq_true.mp punct_ok _ (by simp)
theorem ok_comma : punctOk (tk ",") = true := List.all_eq_true.mp punct_ok _ (by simp)
theorem ok_eq : punctOk (tk "=") = true := List.all_eq_true.mp punct_ok _ (by simp)

theorem punctOk_spec {t : Tok} (h : punctOk t = true) :
    ValidTok t = true ∧ neutral t = true ∧ startsLower t = false ∧ startsDigit t = false := by
  simpa [punctOk, and_assoc] using h

theorem keyOk_spec {t : Tok} (h : keyOk t = true) :
    ValidTok t = true ∧ neutral t = true ∧ isKey t = true := by
  simpa [keyOk, and_assoc] using h

theorem symOk_spec {s : Str} (h : symOk s = true) :
    ValidTok (Tok.lit s) = true ∧ isNumberTok (Tok.lit s) = false ∧ startsLower (Tok.lit s) = false ∧
      startsDigit (Tok.lit s) = false := by
  simpa [symOk, ValidTok, isNumberTok, and_assoc] using h

theorem numOk_spec {t : Tok} (h : numOk t = true) :
    ValidTok t = true ∧ isGtZero t = true ∧ isOneUpper t = false ∧ startsLower t = false := by
  simp only [numOk, Bool.and_eq_true, Bool.not_eq_true'] at h
  exact ⟨h.1.1.1.1, h.1.1.1.2, h.1.1.2, h.1.2⟩

theorem numOk_natRepr (n : Nat) (h : 1 ≤ n) : numOk (numTok (natRepr n)) = true :=
  numOk_of_NumTok (numTok_natRepr n h)

theorem sep_of_neutral {a : Tok} (h : neutral a = true) (b : Tok) : Separable a b = true := by
  simp only [neutral, Bool.and_eq_true, Bool.not_eq_true'] at h
  simp [Separable, h.1, h.2]

theorem sep_num {t b : Tok} (ht : numOk t = true) (hb : startsDigit b = false) : Separable t b = true := by
  simp [Separable, (numOk_spec ht).2.2.1, hb]

theorem sep_sym {s : Str} {b : Tok} (hs : symOk s = true) (hb : startsLower b = false) :
    Separable (Tok.lit s) b = true := by
  simp [Separable, (symOk_spec hs).2.1, hb]

theorem chain_cons2 (a b : Tok) (r : List Tok) :
    chainSeparable (a :: b :: r) = (Separable a b && chainSeparable (b :: r)) := rfl

theorem chain_cons_neutral {a : Tok} {l : List Tok} (h : neutral a = true) (hl : chainSeparable l = true) :
    chainSeparable (a :: l) = true := by
  cases l with
  | nil => rfl
  | cons b r => rw [chain_cons2, sep_of_neutral h, hl]; rfl

theorem chain_cons_num {t b : Tok} {r : List Tok} (ht : numOk t = true) (hb : punctOk b = true)
    (hl : chainSeparable (b :: r) = true) : chainSeparable (t :: b :: r) = true := by
  rw [chain_cons2, sep_num ht (punctOk_spec hb).2.2.2, hl]; rfl

theorem chain_append {l1 l2 : List Tok} (h1 : chainSeparable l1 = true) (h2 : chainSeparable l2 = true)
    (hs : headSafe l2 = true) : chainSeparable (l1 ++ l2) = true := by
  induction l1 with
  | nil => exact h2
  | cons a l ih =>
    cases l with
    | nil =>
      cases l2 with
      | nil => rfl
      | cons b r =>
        simp only [headSafe, Bool.and_eq_true, Bool.not_eq_true'] at hs
        show chainSeparable (a :: b :: r) = true
        rw [chain_cons2, h2]
        simp [Separable, hs.1, hs.2]
    | cons a' l' =>
      rw [chain_cons2, Bool.and_eq_true] at h1
      show chainSeparable (a :: a' :: (l' ++ l2)) = true
      rw [chain_cons2, h1.1]
      exact ih h1.2

theorem headSafe_append {l1 l2 : List Tok} (h1 : headSafe l1 = true) (h2 : headSafe l2 = true) :
    headSafe (l1 ++ l2) = true := by
  cases l1 with
  | nil => exact h2
  | cons a l => exact h1

theorem chain_flatMap {α : Type} (f : α → List Tok) (xs : List α)
    (h : ∀ x ∈ xs, chainSeparable (f x) = true ∧ headSafe (f x) = true) :
    chainSeparable (xs.flatMap f) = true ∧ headSafe (xs.flatMap f) = true := by
  induction xs with
  | nil => exact ⟨rfl, rfl⟩
  | cons x xs ih =>
    have hx := h x (by simp)
    have hxs := ih (fun y hy => h y (List.mem_cons_of_mem _ hy))
    rw [List.flatMap_cons]
    exact ⟨chain_append hx.1 hxs.1 hxs.2, headSafe_append hx.2 hxs.2⟩

theorem item_ok (i : Str × Nat) (hs : symOk i.1 = true) (hc : 1 ≤ i.2) :
    let piece := Tok.lit i.1 :: (if i.2 > 1 then [numTok (natRepr i.2)] else [])
    piece.all ValidTok = true ∧ chainSeparable piece = true ∧ headSafe piece = true := by
  intro piece
  obtain ⟨hv, _, hl, hd⟩ := symOk_spec hs
  have hn := numOk_spec (numOk_natRepr i.2 hc)
  refine ⟨?_, ?_, ?_⟩
  · show (Tok.lit i.1 :: (if i.2 > 1 then [numTok (natRepr i.2)] else [])).all ValidTok = true
    split <;> simp [hv, hn.1]
  · show chainSeparable (Tok.lit i.1 :: (if i.2 > 1 then [numTok (natRepr i.2)] else [])) = true
    split
    · rw [chain_cons2, sep_sym hs hn.2.2.2]; rfl
    · rfl
  · show (!startsLower (Tok.lit i.1) && !startsDigit (Tok.lit i.1)) = true
    simp [hl, hd]

theorem formula_ok (items : List (Str × Nat)) (h : ∀ i ∈ items, symOk i.1 = true ∧ 1 ≤ i.2) :
    (formulaToks items).all ValidTok = true ∧ chainSeparable (formulaToks items) = true ∧
      headSafe (formulaToks items) = true := by
  unfold formulaToks
  refine ⟨?_, chain_flatMap _ _ (fun i hi => (item_ok i (h i hi).1 (h i hi).2).2)⟩
  rw [List.all_flatMap, List.all_eq_true]
  intro i hi
  exact (item_ok i (h i hi).1 (h i hi).2).1

theorem tuple_ok (e : Nat × Nat) :
    let piece := [tk "(", numTok (natRepr (e.1 + 1)), tk "-", numTok (natRepr (e.2 + 1)), tk ")"]
    piece.all ValidTok = true ∧ chainSeparable piece = true ∧ headSafe piece = true := by
  intro piece
  have h1 := numOk_natRepr (e.1 + 1) (by omega)
  have h2 := numOk_natRepr (e.2 + 1) (by omega)
  refine ⟨?_, ?_, ?_⟩
  · simp [piece, (numOk_spec h1).1, (numOk_spec h2).1, (punctOk_spec ok_lparen).1,
      (punctOk_spec ok_rparen).1, (punctOk_spec ok_minus).1]
  · exact chain_cons_neutral (punctOk_spec ok_lparen).2.1
      (chain_cons_num h1 ok_minus (chain_cons_neutral (punctOk_spec ok_minus).2.1
        (chain_cons_num h2 ok_rparen rfl)))
  · show (!startsLower (tk "(") && !startsDigit (tk "(")) = true
    simp [(punctOk_spec ok_lparen).2.2]

theorem tuples_ok (es : List (Nat × Nat)) :
    (tupleToks es).all ValidTok = true ∧ chainSeparable (tupleToks es) = true ∧
      headSafe (tupleToks es) = true := by
  unfold tupleToks
  refine ⟨?_, chain_flatMap _ _ (fun e _ => (tuple_ok e).2)⟩
  rw [List.all_flatMap, List.all_eq_true]
  intro e _
  exact (tuple_ok e).1

/-- a `key=value` pair the grammar accepts -/
def GoodPair (p : Str × Str) : Prop := keyOk (Tok.lit p.1) = true ∧ numOk (numTok p.2) = true

/-- an attribute block the grammar accepts -/
def GoodBlock (b : Str × List (Str × Str)) : Prop :=
  numOk (numTok b.1) = true ∧ b.2 ≠ [] ∧ ∀ p ∈ b.2, GoodPair p

theorem pairs_ok (ps : List (Str × Str)) (h : ∀ p ∈ ps, GoodPair p) :
    (pairToks ps).all ValidTok = true ∧ chainSeparable (pairToks ps) = true := by
  induction ps using pairToks.induct with
  | case1 => exact ⟨rfl, rfl⟩
  | case2 p =>
    obtain ⟨hk, hn⟩ := h p (by simp)
    refine ⟨?_, ?_⟩
    · simp [pairToks, (keyOk_spec hk).1, (numOk_spec hn).1, (punctOk_spec ok_eq).1]
    · exact chain_cons_neutral (keyOk_spec hk).2.1 (chain_cons_neutral (punctOk_spec ok_eq).2.1 rfl)
  | case3 p q r ih =>
    obtain ⟨hk, hn⟩ := h p (by simp)
    obtain ⟨ih1, ih2⟩ := ih (fun x hx => h x (List.mem_cons_of_mem _ hx))
    refine ⟨?_, ?_⟩
    · rw [pairToks]
      simp [ih1, (keyOk_spec hk).1, (numOk_spec hn).1, (punctOk_spec ok_eq).1, (punctOk_spec ok_comma).1]
    · rw [pairToks]
      exact chain_cons_neutral (keyOk_spec hk).2.1 (chain_cons_neutral (punctOk_spec ok_eq).2.1
        (chain_cons_num hn ok_comma (chain_cons_neutral (punctOk_spec ok_comma).2.1 ih2)))

theorem block_ok (b : Str × List (Str × Str)) (h : GoodBlock b) :
    (blockToks b).all ValidTok = true ∧ chainSeparable (blockToks b) = true ∧
      headSafe (blockToks b) = true := by
  obtain ⟨hi, _, hp⟩ := h
  obtain ⟨hp1, hp2⟩ := pairs_ok b.2 hp
  have hr : headSafe [tk ")"] = true := by
    show (!startsLower (tk ")") && !startsDigit (tk ")")) = true
    simp [(punctOk_spec ok_rparen).2.2]
  refine ⟨?_, ?_, ?_⟩
  · simp [blockToks, hp1, (numOk_spec hi).1, (punctOk_spec ok_lparen).1, (punctOk_spec ok_rparen).1,
      (punctOk_spec ok_colon).1]
  · unfold blockToks
    exact chain_cons_neutral (punctOk_spec ok_lparen).2.1 (chain_cons_num hi ok_colon
      (chain_cons_neutral (punctOk_spec ok_colon).2.1 (chain_append hp2 rfl hr)))
  · show (!startsLower (tk "(") && !startsDigit (tk "(")) = true
    simp [(punctOk_spec ok_lparen).2.2]

theorem attrs_ok (bs : List (Str × List (Str × Str))) (h : ∀ b ∈ bs, GoodBlock b) :
    (attrToks bs).all ValidTok = true ∧ chainSeparable (attrToks bs) = true ∧
      headSafe (attrToks bs) = true := by
  unfold attrToks
  refine ⟨?_, chain_flatMap _ _ (fun b hb => (block_ok b (h b hb)).2)⟩
  rw [List.all_flatMap, List.all_eq_true]
  intro b hb
  exact (block_ok b (h b hb)).1

/-! ### the molecule's items and blocks satisfy the side conditions -/

theorem items_good (syms : List Str) (hsyms : ∀ s ∈ syms, s ∈ elementSyms) :
    ∀ i ∈ hillItems syms, symOk i.1 = true ∧ 1 ≤ i.2 := by
  obtain ⟨hcnt, _, hmem⟩ := hillItems_counts syms
  intro i hi
  refine ⟨?_, (hcnt i hi).1⟩
  have : i.1 ∈ syms := (hmem i.1).mp (List.mem_map_of_mem hi)
  exact List.all_eq_true.mp elementSyms_ok _ (hsyms _ this)

theorem intRepr_pos (v : Int) (h : 0 < v) : ∃ n, 1 ≤ n ∧ intRepr v = natRepr n := by
  cases v with
  | ofNat n => exact ⟨n, by have : (0:Int) < (n : Int) := h; omega, rfl⟩
  | negSucc n => exact absurd h (by simp)

theorem ok_mass : keyOk (Tok.lit "mass".toList) = true := List.all_eq_true.mp key_ok (tk "mass") (by simp)
theorem ok_rad : keyOk (Tok.lit "rad".toList) = true := List.all_eq_true.mp key_ok (tk "rad") (by simp)

theorem attrPairs_good (a : Atom) (hm : ∀ v, a.mass = some v → 0 < v) (hr : ∀ v, a.rad = some v → 0 < v) :
    ∀ p ∈ attrPairs a, GoodPair p := by
  intro p hp
  unfold attrPairs at hp
  rcases List.mem_append.mp hp with hp | hp
  · cases hmass : a.mass with
    | none => rw [hmass] at hp; simp at hp
    | some v =>
      rw [hmass] at hp
      have := List.mem_singleton.mp hp
      subst this
      obtain ⟨n, hn, he⟩ := intRepr_pos v (hm v hmass)
      exact ⟨ok_mass, by show numOk (numTok (intRepr v)) = true; rw [he]; exact numOk_natRepr n hn⟩
  · cases hrad : a.rad with
    | none => rw [hrad] at hp; simp at hp
    | some v =>
      rw [hrad] at hp
      have := List.mem_singleton.mp hp
      subst this
      obtain ⟨n, hn, he⟩ := intRepr_pos v (hr v hrad)
      exact ⟨ok_rad, by show numOk (numTok (intRepr v)) = true; rw [he]; exact numOk_natRepr n hn⟩

theorem blocks_good (m : Graph)
    (hpos : ∀ n ∈ m.nodes, (∀ v, n.attrs.mass = some v → 0 < v) ∧ (∀ v, n.attrs.rad = some v → 0 < v)) :
    ∀ b ∈ attrsAstOf m, GoodBlock b := by
  intro b hb
  have h2 : attrsAstOf m = (m.nodes.mergeSort fun a b => decide (a.id ≤ b.id)).filterMap nodeBlock := rfl
  rw [h2, List.mem_filterMap] at hb
  obtain ⟨n, hn, hnb⟩ := hb
  have hn' : n ∈ m.nodes := List.mem_mergeSort.mp hn
  unfold nodeBlock at hnb
  split at hnb
  · cases hnb
  · rename_i hne
    cases hnb
    refine ⟨numOk_natRepr _ (by omega), ?_, attrPairs_good _ (hpos n hn').1 (hpos n hn').2⟩
    intro h
    have h' : attrPairs n.attrs = [] := h
    rw [h'] at hne; exact hne rfl

theorem allToks_ok (m : Graph)
    (hsyms : ∀ s ∈ m.nodes.filterMap (·.attrs.sym), s ∈ elementSyms)
    (hpos : ∀ n ∈ m.nodes, (∀ v, n.attrs.mass = some v → 0 < v) ∧ (∀ v, n.attrs.rad = some v → 0 < v)) :
    (allToks m).all ValidTok = true ∧ chainSeparable (allToks m) = true := by
  obtain ⟨f1, f2, _⟩ := formula_ok _ (items_good _ hsyms)
  obtain ⟨t1, t2, _⟩ := tuples_ok (sortedEdges m)
  obtain ⟨a1, a2, _⟩ := attrs_ok _ (blocks_good m hpos)
  obtain ⟨sv, sn, sl, sd⟩ := punctOk_spec ok_slash
  have hs : ∀ l, headSafe (tk "/" :: l) = true := by
    intro l
    show (!startsLower (tk "/") && !startsDigit (tk "/")) = true
    simp [sl, sd]
  unfold allToks
  refine ⟨?_, ?_⟩
  · simp only [List.all_append, List.all_cons, f1, t1, sv, Bool.true_and]
    split
    · rfl
    · simp only [List.all_cons, sv, a1]; rfl
  · refine chain_append f2 (chain_cons_neutral sn (chain_append t2 ?_ ?_)) (hs _)
    · split
      · rfl
      · exact chain_cons_neutral sn a2
    · split
      · rfl
      · exact hs _

/-- (3) the lexer reads the emitted string back as `allToks m` -/
theorem lex_serializedText (m : Graph)
    (hsyms : ∀ s ∈ m.nodes.filterMap (·.attrs.sym), s ∈ elementSyms)
    (hpos : ∀ n ∈ m.nodes, (∀ v, n.attrs.mass = some v → 0 < v) ∧ (∀ v, n.attrs.rad = some v → 0 < v)) :
    lex (serializedText m) = some (allToks m) := by
  rw [← render_allToks]
  exact lex_render _ (allToks_ok m hsyms hpos).1 (allToks_ok m hsyms hpos).2

/-! ### (4) the token list is a sentence with syntax tree `astOf m` -/

theorem sumFormula_hill (syms : List Str) (hel : ∀ s ∈ syms, s ∈ elementSyms) :
    SumFormula (formulaToks (hillItems syms)) ((hillItems syms).map fun i => (i.1, countText i.2)) := by
  have h := parseFormula_hillItems syms hel []
  obtain ⟨pre, hpre, hF⟩ := Sentence.formula_sound _ _ _ h
  have : formulaToks (hillItems syms) = pre := List.append_cancel_right hpre
  rw [this]; exact hF

theorem tuples_sentence (es : List (Nat × Nat)) :
    Tuples (tupleToks es) (es.map fun e => (natRepr (e.1 + 1), natRepr (e.2 + 1))) := by
  induction es with
  | nil => exact Tuples.nil
  | cons e es ih =>
    have h1 := (numOk_spec (numOk_natRepr (e.1 + 1) (by omega))).2.1
    have h2 := (numOk_spec (numOk_natRepr (e.2 + 1) (by omega))).2.1
    have := Tuples.cons h1 h2 ih
    rw [Hill.numTok_text, Hill.numTok_text] at this
    exact this

theorem props_sentence (ps : List (Str × Str)) (hne : ps ≠ []) (h : ∀ p ∈ ps, GoodPair p) :
    Props (pairToks ps) ps := by
  induction ps using pairToks.induct with
  | case1 => exact absurd rfl hne
  | case2 p =>
    obtain ⟨hk, hn⟩ := h p (by simp)
    have := Props.one (keyOk_spec hk).2.2 (numOk_spec hn).2.1
    rw [Hill.numTok_text] at this
    exact this
  | case3 p q r ih =>
    obtain ⟨hk, hn⟩ := h p (by simp)
    have ih' := ih (by simp) (fun x hx => h x (List.mem_cons_of_mem _ hx))
    have := Props.more (keyOk_spec hk).2.2 (numOk_spec hn).2.1 ih'
    rw [Hill.numTok_text] at this
    rw [pairToks]
    exact this

theorem attrs_sentence (bs : List (Str × List (Str × Str))) (h : ∀ b ∈ bs, GoodBlock b) :
    Attrs (attrToks bs) bs := by
  induction bs with
  | nil => exact Attrs.nil
  | cons b bs ih =>
    obtain ⟨hi, hne, hp⟩ := h b (by simp)
    have ih' := ih (fun x hx => h x (List.mem_cons_of_mem _ hx))
    have := Attrs.cons (numOk_spec hi).2.1 (props_sentence b.2 hne hp) ih'
    rw [Hill.numTok_text] at this
    have e : attrToks (b :: bs) =
        tk "(" :: numTok b.1 :: tk ":" :: (pairToks b.2 ++ tk ")" :: attrToks bs) := by
      simp [attrToks, blockToks]
    rw [e]
    exact this

theorem allToks_sentence (m : Graph)
    (hsyms : ∀ s ∈ m.nodes.filterMap (·.attrs.sym), s ∈ elementSyms)
    (hpos : ∀ n ∈ m.nodes, (∀ v, n.attrs.mass = some v → 0 < v) ∧ (∀ v, n.attrs.rad = some v → 0 < v)) :
    Sentence (allToks m) (astOf m) := by
  have hF := sumFormula_hill _ hsyms
  have hT := tuples_sentence (sortedEdges m)
  have hA := attrs_sentence _ (blocks_good m hpos)
  unfold allToks astOf
  cases hbs : attrsAstOf m with
  | nil =>
    simp only [List.isEmpty_nil, if_true, List.append_nil]
    exact Sentence.plain hF hT
  | cons b bs =>
    rw [hbs] at hA
    simp only [List.isEmpty_cons, Bool.false_eq_true, if_false]
    exact Sentence.withAttrs hF hT hA

/-! ### unfolding `serialize_molecule` -/

theorem serialize_unfold (g : Graph) : serializeMolecule g =
    (assignFinalLabels g).bind fun t =>
      match t with
      | (fl, g', _) =>
        (sortMoleculeByAttribute fl .atomicNumber).bind fun m => Except.ok (serializedText m, g') := rfl

end SerTok

/-- **The emitted string is a sentence of the grammar and parses to `astOf m`.**
Hypotheses: every element symbol is one of the 118 (any subset, any counts), every mass / radical value
that is present is strictly positive. -/
theorem serialize_parses (m : Graph)
    (hsyms : ∀ s ∈ m.nodes.filterMap (·.attrs.sym), s ∈ elementSyms)
    (hpos : ∀ n ∈ m.nodes, (∀ v, n.attrs.mass = some v → 0 < v) ∧ (∀ v, n.attrs.rad = some v → 0 < v)) :
    ∃ toks, lex (serializedText m) = some toks ∧ parseTucan toks = some (astOf m) ∧
      Sentence toks (astOf m) :=
  ⟨SerTok.allToks m, SerTok.lex_serializedText m hsyms hpos,
    (parseTucan_iff _ _).mpr (SerTok.allToks_sentence m hsyms hpos), SerTok.allToks_sentence m hsyms hpos⟩

/-- the string returned by `serialize_molecule` is `serializedText` of the sorted molecule -/
theorem serializeMolecule_text (c : Graph) (s : Str) (p : Graph) (h : serializeMolecule c = .ok (s, p)) :
    ∃ fl g' lab m, assignFinalLabels c = .ok (fl, g', lab) ∧ sortMoleculeByAttribute fl .atomicNumber = .ok m ∧
      s = serializedText m := by
  rw [SerTok.serialize_unfold] at h
  cases ha : assignFinalLabels c with
  | error e => rw [ha] at h; cases h
  | ok t =>
    obtain ⟨fl, g', lab⟩ := t
    rw [ha] at h
    simp only [Except.bind] at h
    cases hm : sortMoleculeByAttribute fl .atomicNumber with
    | error e => rw [hm] at h; cases h
    | ok m =>
      rw [hm] at h
      simp only [Except.ok.injEq, Prod.mk.injEq] at h
      exact ⟨fl, g', lab, m, rfl, hm, h.1.symm⟩

end Tucan
