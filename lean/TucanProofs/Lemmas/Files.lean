import TucanProofs.Lemmas.Agreement
import TucanProofs.Lemmas.MolfileText
/-!
# Files

`IsV3000File lines atoms bonds` / `IsV2000File lines atoms bonds bl` bundle the hypotheses of
`graphAttributesV3000_spec` / `graphAttributesV2000_spec`: the list of lines is a connection table in one
of the spellings the format permits, whose atom lines, bond lines (and property block) are the given
abstract entries.  `reads` is the spec theorem on the bundle; `Mol`-level corollaries follow.
-/
namespace Tucan

/-- a V3000 connection table in any permitted spelling (blank runs, continuation at any split points,
any header lines, anything after the bond block) with the given atom and bond lines -/
def IsV3000File (lines : List Str) (atoms : List AtomEntry) (bonds : List BondEntry) : Prop :=
  ∃ (h0 h1 h2 h3 : Str) (line4 countsRest : List Str) (tailLines tailSpliced : List Str)
    (p4 pCounts pBeginAtom pEndAtom pBeginBond pEndBond : List Str) (pAtoms pBonds : List (List Str)),
    lines = h0 :: h1 :: h2 :: h3 :: (p4 ++ pCounts ++ pBeginAtom ++ pAtoms.flatten ++ pEndAtom ++
        (if bonds.isEmpty then [] else pBeginBond ++ pBonds.flatten ++ pEndBond) ++ tailLines) ∧
    (∀ h ∈ [h0, h1, h2, h3], (startsWith h v30Prefix && endsWithChar h '-') = false) ∧
    Rendered line4 p4 ∧
    Rendered (cs "COUNTS" :: natRepr atoms.length :: natRepr bonds.length :: countsRest) pCounts ∧
    Rendered [cs "BEGIN", cs "ATOM"] pBeginAtom ∧ Rendered [cs "END", cs "ATOM"] pEndAtom ∧
    Rendered [cs "BEGIN", cs "BOND"] pBeginBond ∧ Rendered [cs "END", cs "BOND"] pEndBond ∧
    AllRendered AtomEntry.toks atoms pAtoms ∧ AllRendered BondEntry.toks bonds pBonds ∧
    (∀ e ∈ atoms, e.Ok) ∧ (∀ b ∈ bonds, b.Ok) ∧
    ((natRepr atoms.length).length ≤ intMaxStrDigits ∧ (natRepr bonds.length).length ≤ intMaxStrDigits) ∧
    concatLinesWithDash tailLines = .ok tailSpliced ∧ tailLines ≠ []

/-- the file's bonds are between existing atoms, and never between two star atoms -/
def V3BondsOk (atoms : List AtomEntry) (bonds : List BondEntry) : Prop :=
  (∀ b ∈ bonds, ¬ ((starsOf atoms).contains (b.a1 - 1) ∧ (starsOf atoms).contains (b.a2 - 1))) ∧
  (∀ b ∈ bonds, ∀ t ∈ b.tuples (starsOf atoms),
    (alookup t.1 (atomDictOf atoms)).isSome ∧ (alookup t.2 (atomDictOf atoms)).isSome)

theorem IsV3000File.reads {lines : List Str} {atoms : List AtomEntry} {bonds : List BondEntry}
    (f : IsV3000File lines atoms bonds) (hb : V3BondsOk atoms bonds) :
    graphAttributesV3000 lines = .ok (atomDictOf atoms, bondDictOf (starsOf atoms) bonds) := by
  obtain ⟨h0, h1, h2, h3, line4, countsRest, tailLines, tailSpliced, p4, pCounts, pBA, pEA, pBB, pEB, pAtoms, pBonds,
    rfl, hhdr, r4, rC, rBA, rEA, rBB, rEB, rA, rB, hA, hB, hcnt, htail, hne⟩ := f
  exact graphAttributesV3000_spec h0 h1 h2 h3 line4 countsRest atoms bonds tailLines tailSpliced p4 pCounts pBA pEA
    pBB pEB pAtoms pBonds hhdr r4 rC rBA rEA rBB rEB rA rB hA hB hcnt hb.1 hb.2 htail hne

/-- the fourth line of such a file -/
theorem IsV3000File.line3 {lines : List Str} {atoms : List AtomEntry} {bonds : List BondEntry}
    (f : IsV3000File lines atoms bonds) : ∃ l3, lines[3]? = some l3 := by
  obtain ⟨h0, h1, h2, h3, _, _, _, _, _, _, _, _, _, _, _, _, rfl, _⟩ := f
  exact ⟨h3, rfl⟩

/-- a V2000 connection table: header, counts line, fixed-column atom and bond lines, atom lists, a property
block, `M  END`, anything after it -/
def IsV2000File (lines : List Str) (atoms : List V2Atom) (bonds : List V2Bond) (bl : List BlockLine) : Prop :=
  ∃ (h0 h1 h2 countsTail : Str) (lists blockLines tail : List Str),
    lines = h0 :: h1 :: h2 :: (pad3 atoms.length ++ pad3 bonds.length ++ pad3 lists.length ++ countsTail) ::
          (atoms.map V2Atom.line ++ bonds.map V2Bond.line ++ lists ++ blockLines ++ cs "M  END" :: tail) ∧
    (∀ a ∈ atoms, a.Ok) ∧
    (intRepr (atoms.length : Int)).length ≤ 3 ∧ (intRepr (bonds.length : Int)).length ≤ 3 ∧
    (intRepr (lists.length : Int)).length ≤ 3 ∧
    (∀ b ∈ bonds, (intRepr b.a).length ≤ 3 ∧ (intRepr b.b).length ≤ 3 ∧ (intRepr b.t).length ≤ 3 ∧
      1 ≤ b.a ∧ b.a ≤ atoms.length ∧ 1 ≤ b.b ∧ b.b ≤ atoms.length) ∧
    (∀ b ∈ bonds, SkippedLine b.line) ∧ (∀ l ∈ lists, SkippedLine l) ∧
    RendersAll (atoms.zipIdx.map fun (a, i) => ((i : Int), a.record)) bl blockLines

theorem IsV2000File.reads {lines : List Str} {atoms : List V2Atom} {bonds : List V2Bond} {bl : List BlockLine}
    (f : IsV2000File lines atoms bonds bl) :
    graphAttributesV2000 lines =
      .ok (applyBlock bl (atoms.zipIdx.map fun (a, i) => ((i : Int), a.record)),
           bonds.foldl (fun d b => ainsert (b.a - 1, b.b - 1) ({ btype := some b.t } : Bond) d) []) := by
  obtain ⟨h0, h1, h2, countsTail, lists, blockLines, tail, rfl, hA, hna, hnb, hnl, hB, hsB, hsL, hbl⟩ := f
  exact graphAttributesV2000_spec h0 h1 h2 countsTail atoms bonds lists bl blockLines tail hA hna hnb hnl hB hsB hsL hbl

theorem IsV2000File.atomsOk {lines : List Str} {atoms : List V2Atom} {bonds : List V2Bond} {bl : List BlockLine}
    (f : IsV2000File lines atoms bonds bl) : ∀ a ∈ atoms, a.Ok := by
  obtain ⟨_, _, _, _, _, _, _, _, hA, _⟩ := f
  exact hA

/-! ## files that state a molecule -/

/-- a V3000 file that states `m` has no star atoms, and its bonds are between existing atoms -/
theorem v3BondsOk_of_states (m : Mol) (hm : m.Ok) (coords : List (Str × Str × Str)) (atoms : List AtomEntry)
    (bonds : List BondEntry) (h : V3States m coords atoms bonds) : V3BondsOk atoms bonds := by
  obtain ⟨hd, hs⟩ := v3_dict m hm coords atoms bonds h
  have hlen := Agree.atomDict_length m coords h.nAtoms.2
  have hkey : ∀ k : Nat, k < m.atoms.length → (alookup (k : Int) (atomDictOf atoms)).isSome = true := by
    intro k hk
    rw [hd]
    apply WR.alookup_isSome
    rw [Agree.atomDict_keys, hlen]
    exact List.mem_map.2 ⟨k, List.mem_range.2 hk, rfl⟩
  refine ⟨?_, ?_⟩
  · intro b _ hc
    rw [hs] at hc
    simp at hc
  · intro b hb t ht
    rw [hs] at ht
    obtain ⟨j, hj, rfl⟩ := List.getElem_of_mem hb
    have hj' : j < m.bonds.length := h.nBonds ▸ hj
    obtain ⟨_, h1, h2⟩ := h.bond j hj' hj
    obtain ⟨ha, hb', _⟩ := hm.bonds m.bonds[j] (List.getElem_mem hj')
    have : t = ((m.bonds[j].a : Int), (m.bonds[j].b : Int)) := by
      simp only [BondEntry.tuples, List.contains_nil, Bool.false_eq_true, if_false, List.mem_singleton] at ht
      rw [ht, h1, h2]
      simp
    subst this
    exact ⟨hkey _ ha, hkey _ hb'⟩

/-- **a V3000 file that states `m` is read as `m`** -/
theorem v3000_reads_mol (m : Mol) (hm : m.Ok) (coords : List (Str × Str × Str)) (lines : List Str)
    (atoms : List AtomEntry) (bonds : List BondEntry) (f : IsV3000File lines atoms bonds)
    (h : V3States m coords atoms bonds) :
    graphAttributesV3000 lines = .ok (m.atomDict coords, m.bondDict) := by
  rw [f.reads (v3BondsOk_of_states m hm coords atoms bonds h), (v3_dict m hm coords atoms bonds h).1,
    v3_bonds m hm coords atoms bonds h]

/-- **a V2000 file that states `m` is read as `m`** -/
theorem v2000_reads_mol (m : Mol) (hm : m.Ok) (lines : List Str) (atoms : List V2Atom) (bonds : List V2Bond)
    (bl : List BlockLine) (f : IsV2000File lines atoms bonds bl) (h : V2States m atoms bonds bl) :
    graphAttributesV2000 lines = .ok (m.atomDict (v2Coords atoms), m.bondDict) := by
  rw [f.reads, v2_dict m hm atoms bonds bl f.atomsOk h, v2_bonds m hm atoms bonds bl h]

/-! ## from the text of a file to the TUCAN string -/

/-- `graph_from_molfile_text(text)` is the graph of molecule `m` (coordinates spelled `c`) -/
def ReadsAs (text : Str) (m : Mol) (c : List (Str × Str × Str)) : Prop :=
  graphFromMolfileText text = (graphFromMolecule (m.atomDict c) m.bondDict >>= fun q => pure q.1)

/-- the text is the lines, each followed by the same terminator (`\n`, `\r\n` or `\r`), the last one
possibly without -/
def IsTextOf (text : Str) (lines : List Str) : Prop :=
  (∀ l ∈ lines, WR.NoBreak l) ∧ ∃ eol, IsEol eol ∧
    (text = fileText eol lines ∨ (text = fileTextNoTrail eol lines ∧ ∀ l, lines.getLast? = some l → l ≠ []))

/-- **V3000, text level**: any header lines, any line-ending style, any spelling of the table -/
theorem v3000_text_reads_mol (m : Mol) (hm : m.Ok) (coords : List (Str × Str × Str)) (text : Str) (lines : List Str)
    (atoms : List AtomEntry) (bonds : List BondEntry) (ht : IsTextOf text lines) (f : IsV3000File lines atoms bonds)
    (hver : ∀ l3, lines[3]? = some l3 → EndsInWord l3 (cs "V3000"))
    (h : V3States m coords atoms bonds) : ReadsAs text m coords := by
  obtain ⟨hnb, eol, he, htext⟩ := ht
  obtain ⟨l3, hl3⟩ := f.line3
  have := (graphFromMolfileText_dispatch eol he lines hnb text htext l3 hl3).1 (hver l3 hl3)
  rw [ReadsAs, this, v3000_reads_mol m hm coords lines atoms bonds f h]
  rfl

/-- **V2000, text level** -/
theorem v2000_text_reads_mol (m : Mol) (hm : m.Ok) (text : Str) (lines : List Str)
    (atoms : List V2Atom) (bonds : List V2Bond) (bl : List BlockLine) (ht : IsTextOf text lines)
    (f : IsV2000File lines atoms bonds bl)
    (hver : ∀ l3, lines[3]? = some l3 → EndsInWord l3 (cs "V2000"))
    (h : V2States m atoms bonds bl) : ReadsAs text m (v2Coords atoms) := by
  obtain ⟨hnb, eol, he, htext⟩ := ht
  have hl3 : ∃ l3, lines[3]? = some l3 := by
    obtain ⟨h0, h1, h2, ct, lists, blockLines, tail, rfl, _⟩ := f
    exact ⟨_, rfl⟩
  obtain ⟨l3, hl3⟩ := hl3
  have := (graphFromMolfileText_dispatch eol he lines hnb text htext l3 hl3).2 (hver l3 hl3)
  rw [ReadsAs, this, v2000_reads_mol m hm lines atoms bonds bl f h]
  rfl

/-- **Two files, one identity, one string.**  If two texts are read as molecules that agree on what TUCAN
identifies a molecule by, the pipeline gives them the same string — whatever else the two files say. -/
theorem readsAs_same_string (O : CanonOracle) (m m' : Mol) (hm : m.Ok) (hm' : m'.Ok) (same : SameIdentity m m')
    (c c' : List (Str × Str × Str)) (hc : c.length = m.atoms.length) (hc' : c'.length = m'.atoms.length)
    (text text' : Str) (r : ReadsAs text m c) (r' : ReadsAs text' m' c') (g g' : Graph) (s s' : Str)
    (hg : graphFromMolfileText text = .ok g) (hg' : graphFromMolfileText text' = .ok g')
    (hs : tucanOf O.order g = .ok s) (hs' : tucanOf O.order g' = .ok s') : s = s' := by
  rw [r] at hg
  rw [r'] at hg'
  cases h1 : graphFromMolecule (m.atomDict c) m.bondDict with
  | error e => rw [h1] at hg; cases hg
  | ok q =>
    cases h2 : graphFromMolecule (m'.atomDict c') m'.bondDict with
    | error e => rw [h2] at hg'; cases hg'
    | ok q' =>
      obtain ⟨g1, p1⟩ := q
      obtain ⟨g2, p2⟩ := q'
      rw [h1] at hg
      rw [h2] at hg'
      have e1 : g1 = g := by injection hg
      have e2 : g2 = g' := by injection hg'
      subst e1; subst e2
      exact same_string O m m' hm hm' same c c' hc hc' g1 g2 p1 p2 s s' h1 h2 hs hs'

/-- a file that states `m` is read without error -/
theorem readsAs_ok (m : Mol) (hm : m.Ok) (c : List (Str × Str × Str)) (hc : c.length = m.atoms.length)
    (text : Str) (r : ReadsAs text m c) : ∃ g, graphFromMolfileText text = .ok g ∧ g.WF ∧ g.Simple ∧ g.Chem := by
  obtain ⟨g, g', post, post', hg, _, hw, hs, _, _, hch, _⟩ :=
    graphs_same_identity m m hm hm (sameIdentity_refl m) c c hc hc
  exact ⟨g, by rw [r, hg]; rfl, hw, hs, hch⟩

end Tucan
