import TucanProofs.Lemmas.ClassesEdges
/-!
# Every atom of the canonical graph carries a class, and it is a class the refinement assigned

`canonicalize_classes` speaks about the renamed atoms `σ a`.  Here the statement is about the canonical graph's own
labels: every label `i` of `c` is `σ a` for exactly one input atom `a`, and carries `a`'s class.
-/
namespace Tucan
open NxRelabel

/-- every label of the canonical graph is the renamed copy of an input atom and carries that atom's class -/
theorem canonical_classes_total (order : Graph → List Nat)
    (hperm : ∀ r : Graph, r.WF → (order r).Perm r.labels)
    (g c r : Graph) (k : Nat) (hw : g.WF) (hs : g.Simple)
    (h : canonicalizeWith g order = .ok (c, r, k)) :
    ∀ i ∈ c.labels, ∃ a ∈ g.labels, ∃ q : Int, partOf? r a = some q ∧ partOf? c i = some q := by
  have hc : CopySpec := Graph.copy_spec
  have hm : MapAttrsSpec := Graph.mapAttrs_spec
  obtain ⟨p, hp, hr, hcq⟩ := canonicalize_unfold h
  obtain ⟨hpl, hpw, hps, hpa, hpn⟩ := partition_spec hc hm g .invariantCode hw hs p hp
  have hd : Dense p := by
    by_cases hne : g.labels = []
    · refine ⟨by rw [hpl, hne]; simp, 0, ?_⟩
      intro q; rw [hpl, hne]; simp
    · exact partition_dense hc hm g .invariantCode hw hs hne p hp
  unfold refinePartitions at hr
  obtain ⟨_, hdr, _, _, _, _⟩ := refineLoop_equitable hc hm _ p 0 r k hpw hps hd hr
  obtain ⟨hrl, hrw, hrs, hra, hrn⟩ := refineLoop_attrs hc hm _ p 0 r k hpw hps hr
  have hlab : r.labels = g.labels := hrl.trans hpl
  have hord := hperm r hrw
  have hnd : (order r).Nodup := hord.nodup_iff.mpr hrw.nodup
  have hinj : ∀ a ∈ r.labels, ∀ b ∈ r.labels,
      Graph.mapGet (order r).zipIdx a = Graph.mapGet (order r).zipIdx b → a = b :=
    fun a ha b hb => mapGet_zipIdx_inj hnd a (hord.mem_iff.mpr ha) b (hord.mem_iff.mpr hb)
  obtain ⟨rel, cw, cs, cl⟩ := Graph.relabelCopy_spec r (order r).zipIdx hrw hrs hinj
  subst hcq
  intro i hi
  rw [cl] at hi
  obtain ⟨a, har, rfl⟩ := List.mem_map.mp hi
  have ha : a ∈ g.labels := hlab ▸ har
  refine ⟨a, ha, ?_⟩
  obtain ⟨y, q, hy, hry⟩ := hra a (hpl ▸ ha)
  have hsome := hdr.1 a har
  have hpr : partOf? r a = q := by
    unfold partOf?; rw [hry]; rfl
  rw [hpr] at hsome
  obtain ⟨q', rfl⟩ := Option.isSome_iff_exists.mp hsome
  have hca : (r.relabelCopy (order r).zipIdx).attrs? (Graph.mapGet (order r).zipIdx a) =
      some { y with part := some q' } := by
    rw [rel.attrs a har, hry]
  refine ⟨q', hpr, ?_⟩
  unfold partOf?; rw [hca]; rfl

end Tucan
