import TucanProofs.Lemmas.WriteRead
import TucanProofs.Lemmas.WriteReadAny
import TucanProofs.Lemmas.Files
/-!
# What the writer writes is a V3000 connection table in the sense of the reader's specification

`C09_write_read` says the model reader accepts the written file and returns the written molecule.  Independently
of any reader: the lines `graph_to_molfile` produces form a V3000 connection table as `IsV3000File` (the hypothesis
bundle of C07's specification theorem) defines one — four header lines, `BEGIN CTAB`, the counts line with the
numbers of atom and bond lines, `BEGIN ATOM`, one well-formed atom line per atom, `END ATOM`, the bond block, a
tail ending in `M  END` — with the atom and bond entries given below.
-/
namespace Tucan

/-- the properties the writer puts on an atom line, in its order -/
def writtenProps (a : Atom) : List AtomProp :=
  (match a.chg with | some c => [AtomProp.chg c] | none => []) ++
  (match a.rad with | some r => [AtomProp.rad r] | none => []) ++
  (match a.mass with | some m => [AtomProp.mass m] | none => [])

/-- the atom line written for a node: index = label + 1, symbol, three coordinate tokens, `0`, properties -/
def writtenAtom (n : Node) : AtomEntry :=
  .real (natRepr (n.id + 1)) ((n.id : Int) + 1) (n.attrs.sym.getD []) (n.attrs.x.getD zeroCoord)
    (n.attrs.y.getD zeroCoord) (n.attrs.zc.getD zeroCoord) ['0'] (writtenProps n.attrs)

/-- the bond line written for the `k`-th reported edge -/
def writtenBond (p : (Nat × Nat × Bond) × Nat) : BondEntry :=
  { idxTok := natRepr (p.2 + 1), btype := p.1.2.2.btype.getD 1, a1 := (p.1.1 : Int) + 1, a2 := (p.1.2.1 : Int) + 1,
    pre := [], ends := none, post := [] }

namespace WIV
open LineM WR

/-- the physical lines the writer makes of a token line -/
def W (ts : List Str) : List Str := addV30Line (joinSp ts)

/-- the wrapped line is the line cut into pieces -/
theorem addV30Line_parts (line : Str) :
    ∃ parts last, parts.flatten ++ last = line ∧ addV30Line line = physicalLines parts last := by
  induction line using addV30Line.induct with
  | case1 l h =>
    refine ⟨[], l, by simp, ?_⟩
    rw [addV30Line]; simp [h, physicalLines]
  | case2 l h ih =>
    obtain ⟨parts, last, h1, h2⟩ := ih
    refine ⟨l.take 71 :: parts, last, ?_, ?_⟩
    · rw [List.flatten_cons, List.append_assoc, h1, List.take_append_drop]
    · rw [addV30Line]; simp only [h, if_false, h2]
      simp [physicalLines]

theorem rendered_W {ts : List Str} (h : GoodToks ts) : Rendered ts (W ts) := by
  obtain ⟨parts, last, h1, h2⟩ := addV30Line_parts (joinSp ts)
  refine ⟨⟨0, 0, [], parts, last, ?_, h2, ?_⟩, h.toks⟩
  · rw [h1, joinSp_eq_joinBlanks]
  · rw [List.append_assoc, h1]; exact h.noDash

theorem allRendered_map {α β} (tk : β → List Str) (f : α → β) (w : α → List Str) :
    ∀ (l : List α), (∀ a ∈ l, Rendered (tk (f a)) (w a)) → AllRendered tk (l.map f) (l.map w) := by
  intro l
  induction l with
  | nil => intro _; exact .nil
  | cons a r ih =>
    intro h
    exact .cons (h a (by simp)) (ih (fun x hx => h x (by simp [hx])))

theorem intRepr_succ (n : Nat) : intRepr ((n : Int) + 1) = natRepr (n + 1) := rfl

theorem props_toks (a : Atom) : (writtenProps a).map AtomProp.tok =
    optTok (cs "CHG") a.chg ++ optTok (cs "RAD") a.rad ++ optTok (cs "MASS") a.mass := by
  unfold writtenProps
  cases a.chg <;> cases a.rad <;> cases a.mass <;>
    simp [optTok, AtomProp.tok, V3L.cs_CHGeq, V3L.cs_RADeq, V3L.cs_MASSeq]

theorem atom_toks (n : Node) : (writtenAtom n).toks = atomToks n := by
  simp [writtenAtom, AtomEntry.toks, atomToks, props_toks]

theorem bond_toks (e : Nat × Nat × Bond) (k : Nat) : (writtenBond (e, k)).toks = bondToks (k + 1) e := by
  simp [writtenBond, BondEntry.toks, bondToks, intRepr_succ]

theorem digits_notKeyword (t : Str) (hne : t ≠ []) (hd : ∀ c ∈ t, isDigit c = true) : NotKeyword t := by
  have hh : t.head? ≠ some 'C' ∧ t.head? ≠ some 'M' ∧ t.head? ≠ some 'R' := by
    cases t with
    | nil => exact absurd rfl hne
    | cons c r =>
      have hc := hd c (by simp)
      refine ⟨?_, ?_, ?_⟩ <;> (intro h; simp only [List.head?_cons, Option.some.injEq] at h; subst h; revert hc; decide)
  exact ⟨⟨hne, fun c hc => isDigit_not_space (hd c hc)⟩, miss_of_head V3L.kC t hh, miss_of_head V3L.kM t hh,
    miss_of_head V3L.kR t hh⟩

theorem props_ok (n : Node) (hw : WritableAtom n) : ∀ p ∈ writtenProps n.attrs, p.Ok := by
  intro p hp
  unfold writtenProps at hp
  simp only [List.mem_append] at hp
  rcases hp with (hp | hp) | hp
  · cases hc : n.attrs.chg with
    | none => rw [hc] at hp; cases hp
    | some c =>
      rw [hc] at hp
      simp only [List.mem_singleton] at hp
      subst hp
      have := hw.chg c hc
      exact intRepr_small_len c (by omega) (by omega)
  · cases hc : n.attrs.rad with
    | none => rw [hc] at hp; cases hp
    | some c =>
      rw [hc] at hp
      simp only [List.mem_singleton] at hp
      subst hp
      have := hw.rad c hc
      exact intRepr_small_len c (by omega) (by omega)
  · cases hc : n.attrs.mass with
    | none => rw [hc] at hp; cases hp
    | some c =>
      rw [hc] at hp
      simp only [List.mem_singleton] at hp
      subst hp
      exact (hw.mass c hc).2

theorem atom_ok (n : Node) (hw : WritableAtom n) (hid : (natRepr (n.id + 1)).length ≤ intMaxStrDigits) :
    (writtenAtom n).Ok := by
  obtain ⟨s, hs, hel⟩ := hw.sym
  refine ⟨?_, ?_, ?_, ?_, props_ok n hw, Or.inl ?_⟩
  · show pyInt (natRepr (n.id + 1)) = .ok ((n.id : Int) + 1)
    rw [pyInt_natRepr _ hid]; rfl
  · exact digits_notKeyword _ (natRepr_shape _).1 (natRepr_shape _).2.1
  · exact digits_notKeyword _ (by simp) (by decide)
  · intro t ht
    exact ⟨(hw.coords t ht).1, (hw.coords t ht).2.1⟩
  · rw [hs]; exact hel

theorem bond_ok (e : Nat × Nat × Bond) (k : Nat)
    (he : (natRepr (e.1 + 1)).length ≤ intMaxStrDigits ∧ (natRepr (e.2.1 + 1)).length ≤ intMaxStrDigits ∧
      (intRepr (e.2.2.btype.getD 1)).length ≤ intMaxStrDigits) : (writtenBond (e, k)).Ok := by
  refine ⟨V3F.intRepr_clean ((k + 1 : Nat) : Int), ⟨he.2.2, he.1, he.2.1⟩, ?_, ?_, ?_⟩
  · intro t ht; cases ht
  · intro t ht; cases ht
  · intro es h; cases h

theorem isEmpty_zipIdx_map {α β} (f : α × Nat → β) (l : List α) : (l.zipIdx.map f).isEmpty = l.isEmpty := by
  cases l <;> rfl

/-- the written file, block by block -/
theorem physLines_blocks (g : Graph) (hdr : Str) :
    physLines hdr (logicalToks g) =
      [] :: hdr :: [] :: line3 :: (W tBeginCtab ++ W (countsToks g.numberOfNodes g.edges.length) ++ W tBeginAtom ++
        (g.nodes.map fun n => W (atomToks n)).flatten ++ W tEndAtom ++
        (if g.edges.isEmpty then [] else
          W tBeginBond ++ (g.edges.zipIdx.map fun p => W (bondToks (p.2 + 1) p.1)).flatten ++ W tEndBond) ++
        (W tEndCtab ++ [mEnd])) := by
  simp only [physLines, hdrLines, bodyLines, logicalToks, bondPart, W, List.map_cons, List.map_append,
    List.map_map, List.flatten_cons, List.flatten_append, List.append_assoc, List.cons_append, List.nil_append]
  cases hE : g.edges.isEmpty with
  | true => simp [Function.comp_def]
  | false => simp [Function.comp_def]

theorem hdr_ok (hdr : Str) (hh : GoodHeader hdr) :
    ∀ h ∈ [[], hdr, [], line3], (startsWith h v30Prefix && endsWithChar h '-') = false := by
  intro l hl
  simp only [List.mem_cons, List.not_mem_nil, or_false] at hl
  rcases hl with rfl | rfl | rfl | rfl
  · simp [startsWith, v30Prefix, cs]
  · simp [hh.2]
  · simp [startsWith, v30Prefix, cs]
  · simp [startsWith, v30Prefix, cs, line3]

theorem physLines_noBreak (hdr : Str) (hh : GoodHeader hdr) (logical : List (List Str))
    (hg : ∀ ts ∈ logical, GoodToks ts) : ∀ l ∈ physLines hdr logical, NoBreak l := by
  intro l hl
  simp only [physLines, hdrLines, bodyLines, List.mem_append, List.mem_cons, List.not_mem_nil, or_false,
    List.mem_flatten, List.mem_map] at hl
  rcases hl with (rfl | rfl | rfl | rfl) | ⟨ps, ⟨ts, hts, rfl⟩, hp⟩ | rfl
  · intro c hc; cases hc
  · exact hh.1
  · intro c hc; cases hc
  · simp only [NoBreak, line3, cs]; decide
  · exact noBreak_addV30Line (hg ts hts).noBreak l hp
  · simp only [NoBreak, mEnd, cs]; decide

theorem line3_word : EndsInWord line3 (cs "V3000") :=
  ⟨cs "  0  0  0     0  0            999", [], by decide, by simp, by decide, by decide⟩

end WIV

/-- **The written file is a V3000 connection table** with one atom entry per node (in listing order) and one
bond entry per reported edge. -/
theorem written_isV3000File (g : Graph) (hw : g.WF)
    (hlab : g.labels.Perm (List.range g.numberOfNodes))
    (hatoms : ∀ n ∈ g.nodes, WritableAtom n)
    (hbonds : ∀ n ∈ g.nodes, ∀ e ∈ n.nbrs, ∀ bt, e.2.btype = some bt → (intRepr bt).length ≤ intMaxStrDigits)
    (hsize : (natRepr (g.numberOfNodes + g.numberOfEdges + 1)).length ≤ intMaxStrDigits)
    (hdr : Str) (hh : GoodHeader hdr) (lines : List Str)
    (hwr : graphToMolfileLines g hdr = .ok lines) :
    IsV3000File lines (g.nodes.map writtenAtom) (g.edges.zipIdx.map writtenBond) ∧
    (∀ l3, lines[3]? = some l3 → EndsInWord l3 (cs "V3000")) ∧
    (∀ l ∈ lines, WR.NoBreak l) := by
  have hb := WRA.bounds g hw hlab hbonds hsize
  have ha : ∀ n ∈ g.nodes, WR.AtomFacts n := fun n hn => WR.atomFacts n (hatoms n hn) (hb.ids n hn)
  have hgood := WR.logicalToks_good g ha
  have hl : lines = WR.physLines hdr (WR.logicalToks g) := by
    rw [WR.writer_shape g hdr ha] at hwr
    exact (Except.ok.inj hwr).symm
  subst hl
  obtain ⟨g1, g2, g3, g4, g5, g6⟩ := WR.good_fixed
  have hnA : (g.nodes.map writtenAtom).length = g.numberOfNodes := by simp [Graph.numberOfNodes]
  have hnB : (g.edges.zipIdx.map writtenBond).length = g.edges.length := by simp
  refine ⟨?_, ?_, WIV.physLines_noBreak hdr hh _ hgood⟩
  · refine ⟨[], hdr, [], WR.line3, WR.tBeginCtab, [['0'], ['0'], ['0']], WIV.W WR.tEndCtab ++ [WR.mEnd],
      [v30Prefix ++ joinSp WR.tEndCtab] ++ [WR.mEnd],
      WIV.W WR.tBeginCtab, WIV.W (WR.countsToks g.numberOfNodes g.edges.length), WIV.W WR.tBeginAtom,
      WIV.W WR.tEndAtom, WIV.W WR.tBeginBond, WIV.W WR.tEndBond,
      g.nodes.map (fun n => WIV.W (WR.atomToks n)),
      g.edges.zipIdx.map (fun p => WIV.W (WR.bondToks (p.2 + 1) p.1)),
      ?_, WIV.hdr_ok hdr hh, WIV.rendered_W g1, ?_, WIV.rendered_W g3, WIV.rendered_W g4, WIV.rendered_W g5,
      WIV.rendered_W g6, ?_, ?_, ?_, ?_, ?_, ?_, by simp⟩
    · rw [WIV.physLines_blocks, WIV.isEmpty_zipIdx_map]
    · rw [hnA, hnB]
      exact WIV.rendered_W (WR.good_counts _ _)
    · apply WIV.allRendered_map
      intro n hn
      rw [WIV.atom_toks]
      exact WIV.rendered_W (ha n hn).good
    · apply WIV.allRendered_map
      rintro ⟨e, k⟩ _
      rw [WIV.bond_toks]
      exact WIV.rendered_W (WR.good_bond _ _)
    · intro e he
      obtain ⟨n, hn, rfl⟩ := List.mem_map.1 he
      exact WIV.atom_ok n (hatoms n hn) (hb.ids n hn)
    · intro b hbm
      obtain ⟨⟨e, k⟩, hp, rfl⟩ := List.mem_map.1 hbm
      have he : e ∈ g.edges := by
        have := List.mem_zipIdx hp
        simp only [Nat.zero_add] at this
        rw [this.2.2]
        exact List.getElem_mem _
      exact WIV.bond_ok e k (hb.ends e he)
    · rw [hnA, hnB]
      exact ⟨hb.nodes, hb.edges⟩
    · have := splice_wrap_block [joinSp WR.tEndCtab] (by
        intro l hl
        simp only [List.mem_singleton] at hl
        subst hl
        exact g2.noDash) WR.mEnd
      simpa [WIV.W] using this
  · intro l3 h3
    have : l3 = WR.line3 := by
      simp only [WR.physLines, WR.hdrLines, List.cons_append, List.getElem?_cons_succ, List.getElem?_cons_zero,
        Option.some.injEq] at h3
      exact h3.symm
    subst this
    exact WIV.line3_word

end Tucan
