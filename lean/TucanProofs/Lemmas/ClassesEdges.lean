import TucanProofs.Lemmas.Pipeline
import TucanProofs.Lemmas.Permute
import TucanProofs.Lemmas.EdgeCount
/-!
# Partition classes on the canonical graph; the permutation helper's changed edge set in terms of adjacency

* `canonicalize_classes`: every atom of the refined graph *has* a class, and the canonical graph carries exactly
  that class on the renamed atom (the attribute `partition` users read is the class the refinement computed).
* `classes_same_ident`: atoms of one class have the same element, isotope mass and radical state (for atoms whose
  invariant code is the one `graph_from_molecule` computes).
* `permute_edges_differ`: when the helper enforces a change, the returned graph and the argument do not have
  the same adjacency relation — there is a pair of labels bonded in exactly one of them.
* `incomplete_count`: "not a complete graph" as the helper tests it (`2·|E| ≠ n·(n-1)`) follows from the
  existence of two different atoms that are not bonded.
-/
namespace Tucan
open NxRelabel

namespace ClsE

/-- all pairs `(x, y)` with `x` listed before `y` -/
def pairsLt : List Nat → List (Nat × Nat)
  | [] => []
  | x :: t => t.map (fun y => (x, y)) ++ pairsLt t

theorem pairsLt_length : ∀ l : List Nat, 2 * (pairsLt l).length + l.length = l.length * l.length
  | [] => rfl
  | x :: t => by
    have ih := pairsLt_length t
    simp only [pairsLt, List.length_append, List.length_map, List.length_cons]
    have : (t.length + 1) * (t.length + 1) = t.length * t.length + 2 * t.length + 1 := by
      rw [Nat.add_mul, Nat.mul_add]; omega
    omega

theorem mem_pairsLt {a b : Nat} : ∀ l : List Nat, l.Pairwise (· < ·) → a ∈ l → b ∈ l → a < b →
    (a, b) ∈ pairsLt l
  | [], _, ha, _, _ => by cases ha
  | x :: t, hp, ha, hb, hab => by
    rw [List.pairwise_cons] at hp
    simp only [pairsLt, List.mem_append, List.mem_map]
    rcases List.mem_cons.1 ha with rfl | ha'
    · rcases List.mem_cons.1 hb with rfl | hb'
      · omega
      · exact Or.inl ⟨b, hb', rfl⟩
    · rcases List.mem_cons.1 hb with rfl | hb'
      · have := hp.1 a ha'; omega
      · exact Or.inr (mem_pairsLt t hp.2 ha' hb' hab)

theorem sortN_strict {l : List Nat} (hn : l.Nodup) : (sortN l).Pairwise (· < ·) := by
  unfold sortN
  have h1 : (l.mergeSort leN).Pairwise (fun a b => leN a b = true) :=
    List.pairwise_mergeSort leN_trans leN_total _
  have h2 : (l.mergeSort leN).Nodup := (List.mergeSort_perm _ _).nodup_iff.2 hn
  refine (h1.and h2).imp ?_
  intro a b ⟨hle, hne⟩
  simp only [leN, decide_eq_true_eq] at hle
  omega

end ClsE

/-- every atom has a class after refinement, and the canonical graph carries it on the renamed atom -/
theorem canonicalize_classes (order : Graph → List Nat)
    (hperm : ∀ r : Graph, r.WF → (order r).Perm r.labels)
    (g c r : Graph) (k : Nat) (hw : g.WF) (hs : g.Simple)
    (h : canonicalizeWith g order = .ok (c, r, k)) :
    ∃ σ : Nat → Nat,
      (∀ a ∈ g.labels, ∀ b ∈ g.labels, σ a = σ b → a = b) ∧
      (∀ a ∈ g.labels, σ a ∈ c.labels) ∧
      (∀ a ∈ g.labels, (c.nbrsD (σ a)).Perm ((g.nbrsD a).map fun e => (σ e.1, e.2))) ∧
      ∀ a ∈ g.labels, ∃ (x : Atom) (q : Int), g.attrs? a = some x ∧
        partOf? r a = some q ∧ partOf? c (σ a) = some q ∧
        c.attrs? (σ a) = some { x with part := some q } := by
  have hc : CopySpec := Graph.copy_spec
  have hm : MapAttrsSpec := Graph.mapAttrs_spec
  obtain ⟨p, hp, hr, hcq⟩ := canonicalize_unfold h
  obtain ⟨hpl, hpw, hps, hpa, hpn⟩ := partition_spec hc hm g .invariantCode hw hs p hp
  have hd : Dense p := by
    by_cases hne : g.labels = []
    · refine ⟨by rw [hpl, hne]; simp, 0, ?_⟩
      intro q; rw [hpl, hne]; simp
    · exact partition_dense hc hm g .invariantCode hw hs hne p hp
  unfold refinePartitions at hr
  obtain ⟨_, hdr, _, _, _, _⟩ := refineLoop_equitable hc hm _ p 0 r k hpw hps hd hr
  obtain ⟨hrl, hrw, hrs, hra, hrn⟩ := refineLoop_attrs hc hm _ p 0 r k hpw hps hr
  have hlab : r.labels = g.labels := hrl.trans hpl
  have hord := hperm r hrw
  have hnd : (order r).Nodup := hord.nodup_iff.mpr hrw.nodup
  have hinj : ∀ a ∈ r.labels, ∀ b ∈ r.labels,
      Graph.mapGet (order r).zipIdx a = Graph.mapGet (order r).zipIdx b → a = b :=
    fun a ha b hb => mapGet_zipIdx_inj hnd a (hord.mem_iff.mpr ha) b (hord.mem_iff.mpr hb)
  obtain ⟨rel, cw, cs, cl⟩ := Graph.relabelCopy_spec r (order r).zipIdx hrw hrs hinj
  subst hcq
  refine ⟨Graph.mapGet (order r).zipIdx, ?_, ?_, ?_, ?_⟩
  · intro a ha b hb; exact hinj a (hlab ▸ ha) b (hlab ▸ hb)
  · intro a ha
    rw [cl]
    exact List.mem_map.mpr ⟨a, hlab ▸ ha, rfl⟩
  · intro a ha
    have h1 := rel.nbrs a (hlab ▸ ha)
    have h2 := (hrn a (hpl ▸ ha)).trans (hpn a ha)
    exact h1.trans (h2.map _)
  · intro a ha
    obtain ⟨x, hx⟩ := Graph.attrs?_some_of_mem ha
    have h1 := hpa a ha
    rw [hx] at h1
    obtain ⟨y, q, hy, hry⟩ := hra a (hpl ▸ ha)
    rw [h1] at hy
    have : y = { x with part := some (classOf g .invariantCode a : Int) } := by
      simpa using hy.symm
    subst this
    have hsome := hdr.1 a (hlab ▸ ha)
    have hpr : partOf? r a = q := by
      unfold partOf?; rw [hry]; rfl
    rw [hpr] at hsome
    obtain ⟨q', rfl⟩ := Option.isSome_iff_exists.mp hsome
    have hca : (r.relabelCopy (order r).zipIdx).attrs? (Graph.mapGet (order r).zipIdx a) =
        some { x with part := some q' } := by
      rw [rel.attrs a (hlab ▸ ha), hry]
    refine ⟨x, q', hx, hpr, ?_, hca⟩
    unfold partOf?; rw [hca]; rfl

/-- atoms of one class have the same element, isotope mass and radical state -/
theorem classes_same_ident (order : Graph → List Nat) (g c r : Graph) (k : Nat) (hw : g.WF) (hs : g.Simple)
    (hchem : g.Chem) (h : canonicalizeWith g order = .ok (c, r, k)) :
    ∀ a ∈ g.labels, ∀ b ∈ g.labels, partOf? r a = partOf? r b →
      ∃ x y, g.attrs? a = some x ∧ g.attrs? b = some y ∧ SameIdent x y := by
  obtain ⟨_, hresp, hrl, _, _, hra, _⟩ := refined_facts hw hs h
  intro a ha b hb e
  obtain ⟨x, qa, hx, hrx⟩ := hra a ha
  obtain ⟨y, qb, hy, hry⟩ := hra b hb
  have hk := hresp a (hrl ▸ ha) b (hrl ▸ hb) e
  have hcx := hchem a ha x hx
  have hcy := hchem b hb y hy
  refine ⟨x, y, hx, hy, hcx.sameIdent_of_inv hcy ?_⟩
  obtain ⟨z, _, _, hi, _, _⟩ := hcx
  obtain ⟨z', _, _, hi', _, _⟩ := hcy
  unfold keyD at hk
  rw [hrx, hry] at hk
  simp only [Option.bind_some, Atom.key, hi, hi', Option.getD_some] at hk
  rw [hi, hi', hk]

/-- the Boolean the helper computes is `false` only if the adjacency relations differ -/
theorem not_sameEdgeSet_spec (g r : Graph) (hw : g.WF) (rw' : r.WF)
    (hcount : r.numberOfEdges = g.numberOfEdges) (h : sameEdgeSet g r = false) :
    ∃ a b, g.Adj a b ∧ ¬ r.Adj a b := by
  unfold sameEdgeSet at h
  rw [hcount] at h
  simp only [beq_self_eq_true, Bool.true_and] at h
  rw [List.all_eq_false] at h
  obtain ⟨⟨u, v, d⟩, he, hx⟩ := h
  simp only [Bool.not_eq_true, Option.isSome_eq_false_iff, Option.isNone_iff_eq_none] at hx
  refine ⟨u, v, (NxE.adj_iff g u v).2 ⟨d, Graph.mem_edges g hw u v d he⟩, ?_⟩
  intro hadj
  obtain ⟨d', hd'⟩ := (NxE.adj_iff r u v).1 hadj
  rw [NxE.edgeData?_eq, SerializeCongr.alookup_of_mem (NxE.WF.nodupD rw' u) hd'] at hx
  cases hx

/-- **When a change is enforced, the adjacency relation changes**: some pair of labels is bonded in the argument
and not in the result (and, the counts being equal, some other pair the other way round). -/
theorem permute_edges_differ (g : Graph) (hw : g.WF) (hs : g.Simple) (shuffles : List (List Nat))
    (hall : ∀ s ∈ shuffles, s.Perm g.labels) (r : Graph) (h : permuteMolecule g shuffles = .ok r)
    (h2 : 2 ≤ g.numberOfEdges) (hinc : 2 * g.numberOfEdges ≠ g.numberOfNodes * (g.numberOfNodes - 1)) :
    (∃ a b, g.Adj a b ∧ ¬ r.Adj a b) ∧ ¬ (∀ a b, g.Adj a b ↔ r.Adj a b) := by
  have henf : (g.numberOfEdges > 1 && 2 * g.numberOfEdges != g.numberOfNodes * (g.numberOfNodes - 1)) = true := by
    simp only [Bool.and_eq_true, decide_eq_true_eq, bne_iff_ne, ne_eq]
    exact ⟨by omega, hinc⟩
  have hdiff := permuteMolecule_enforced g shuffles r henf h
  obtain ⟨s, hs', rfl⟩ := permuteMolecule_mem g shuffles r h
  obtain ⟨rel, _, rw', rs⟩ := permuteOnce_spec g hw hs s (hall s hs')
  have hcount := rel.toIso.numberOfEdges hw hs rw' rs
  obtain ⟨a, b, hab, hnab⟩ := not_sameEdgeSet_spec g _ hw rw' hcount hdiff
  exact ⟨⟨a, b, hab, hnab⟩, fun hall' => hnab ((hall' a b).1 hab)⟩

/-- a graph in which two different atoms are not bonded has fewer than `n·(n-1)/2` bonds -/
theorem incomplete_count (g : Graph) (hw : g.WF) (hs : g.Simple)
    (hnon : ∃ a ∈ g.labels, ∃ b ∈ g.labels, a ≠ b ∧ ¬ g.Adj a b) :
    2 * g.numberOfEdges < g.numberOfNodes * (g.numberOfNodes - 1) := by
  obtain ⟨a, ha, b, hb, hne, hnadj⟩ := hnon
  have hpair : ∃ a' b', a' ∈ g.labels ∧ b' ∈ g.labels ∧ a' < b' ∧ ¬ g.Adj a' b' := by
    by_cases hab : a < b
    · exact ⟨a, b, ha, hb, hab, hnadj⟩
    · exact ⟨b, a, hb, ha, by omega, fun hc => hnadj (EdgeCount.adj_symm hw hc)⟩
  obtain ⟨a', b', ha', hb', hlt, hnadj'⟩ := hpair
  have hL := ClsE.sortN_strict hw.nodup
  have hmemL : ∀ x, x ∈ sortN g.labels ↔ x ∈ g.labels := fun x => by
    unfold sortN; exact List.mem_mergeSort
  have hlenL : (sortN g.labels).length = g.numberOfNodes := by
    unfold sortN; rw [List.length_mergeSort]; simp [Graph.labels, Graph.numberOfNodes]
  have hnot : (a', b') ∉ sortedEdges g := fun hc => hnadj' ((sortedEdges_mem g hw hs a' b').1 hc).2
  have hnd : ((a', b') :: sortedEdges g).Nodup :=
    List.nodup_cons.2 ⟨hnot, EdgeCount.sortedEdges_nodup g hw hs⟩
  have hsub : ((a', b') :: sortedEdges g) ⊆ ClsE.pairsLt (sortN g.labels) := by
    rintro ⟨x, y⟩ hxy
    rcases List.mem_cons.1 hxy with he | hm
    · cases he
      exact ClsE.mem_pairsLt _ hL ((hmemL _).2 ha') ((hmemL _).2 hb') hlt
    · obtain ⟨hxy', hadj⟩ := (sortedEdges_mem g hw hs x y).1 hm
      exact ClsE.mem_pairsLt _ hL ((hmemL _).2 (EdgeCount.adj_left hadj))
        ((hmemL _).2 (EdgeCount.adj_right hw hadj)) hxy'
  have hle := EqAux.nodup_subset_length_le _ _ hnd hsub
  have hcnt := ClsE.pairsLt_length (sortN g.labels)
  rw [hlenL] at hcnt
  rw [List.length_cons, sortedEdges_length] at hle
  rw [Nat.mul_sub_one]
  omega

end Tucan
