import TucanProofs.Lemmas.IsoBasics
import TucanProofs.Lemmas.NxEdges
/-!
# Isomorphic graphs have the same number of bonds; a non-trivial graph can be visibly permuted
-/
namespace Tucan

namespace EdgeCount

/-- adjacency of a well-formed graph is symmetric -/
theorem adj_symm {g : Graph} (hw : g.WF) {a b : Nat} (h : g.Adj a b) : g.Adj b a := by
  obtain ⟨d, hd⟩ := (NxE.adj_iff g a b).1 h
  exact (NxE.adj_iff g b a).2 ⟨d, NxE.WF.symmD hw hd⟩

theorem adj_left {g : Graph} {a b : Nat} (h : g.Adj a b) : a ∈ g.labels := by
  obtain ⟨d, hd⟩ := (NxE.adj_iff g a b).1 h
  exact NxE.mem_labels_of_mem_nbrsD hd

theorem adj_right {g : Graph} (hw : g.WF) {a b : Nat} (h : g.Adj a b) : b ∈ g.labels := by
  obtain ⟨d, hd⟩ := (NxE.adj_iff g a b).1 h
  exact NxE.WF.closedD hw hd

theorem adj_ne {g : Graph} (hs : g.Simple) {a b : Nat} (h : g.Adj a b) : b ≠ a := by
  obtain ⟨d, hd⟩ := (NxE.adj_iff g a b).1 h
  exact NxE.Simple.neD hs hd

theorem sortedEdges_nodup (g : Graph) (hw : g.WF) (hs : g.Simple) : (sortedEdges g).Nodup := by
  refine (sortedEdges_strict g hw hs).imp ?_
  intro a b hab he
  subst he; omega

/-- the image of a normalised edge under a renaming, normalised again -/
def img (f : Nat → Nat) (p : Nat × Nat) : Nat × Nat :=
  if f p.1 < f p.2 then (f p.1, f p.2) else (f p.2, f p.1)

end EdgeCount

open EdgeCount in
/-- **Same number of bonds.**  Two well-formed simple graphs related by an `Iso` have equally many edges. -/
theorem Iso.numberOfEdges {R : Atom → Atom → Prop} {f : Nat → Nat} {g h : Graph} (iso : Iso R f g h)
    (gw : g.WF) (gs : g.Simple) (hw : h.WF) (hs : h.Simple) : h.numberOfEdges = g.numberOfEdges := by
  rw [← sortedEdges_length g, ← sortedEdges_length h]
  have hnd : ((sortedEdges g).map (img f)).Nodup := by
    unfold List.Nodup
    rw [List.pairwise_map]
    refine (sortedEdges_nodup g gw gs).imp_of_mem ?_
    rintro ⟨a, b⟩ ⟨c, d⟩ hp hq hne he
    rw [sortedEdges_mem g gw gs] at hp hq
    obtain ⟨hab, hadj⟩ := hp
    obtain ⟨hcd, hadj'⟩ := hq
    have ha := adj_left hadj
    have hb := adj_right gw hadj
    have hc := adj_left hadj'
    have hd := adj_right gw hadj'
    apply hne
    unfold img at he
    simp only at he
    split at he <;> split at he <;> simp only [Prod.mk.injEq] at he
    · rw [iso.inj a ha c hc he.1, iso.inj b hb d hd he.2]
    · have h1 := iso.inj a ha d hd he.1
      have h2 := iso.inj b hb c hc he.2
      omega
    · have h1 := iso.inj b hb c hc he.1
      have h2 := iso.inj a ha d hd he.2
      omega
    · rw [iso.inj a ha c hc he.2, iso.inj b hb d hd he.1]
  have hperm : ((sortedEdges g).map (img f)).Perm (sortedEdges h) := by
    refine (List.perm_ext_iff_of_nodup hnd (sortedEdges_nodup h hw hs)).2 ?_
    rintro ⟨x, y⟩
    rw [sortedEdges_mem h hw hs, List.mem_map]
    constructor
    · rintro ⟨⟨a, b⟩, hp, he⟩
      rw [sortedEdges_mem g gw gs] at hp
      obtain ⟨hab, hadj⟩ := hp
      have ha := adj_left hadj
      have hb := adj_right gw hadj
      have hfab : f a ≠ f b := by
        intro hc
        have := iso.inj a ha b hb hc
        omega
      have hadjh : h.Adj (f a) (f b) := (iso.adj_iff gw ha hb).2 hadj
      unfold img at he
      simp only at he
      split at he <;> simp only [Prod.mk.injEq] at he <;> obtain ⟨rfl, rfl⟩ := he
      · exact ⟨by assumption, hadjh⟩
      · exact ⟨by omega, adj_symm hw hadjh⟩
    · rintro ⟨hxy, hadj⟩
      obtain ⟨a, ha, rfl⟩ := iso.exists_preimage (adj_left hadj)
      obtain ⟨b, hb, rfl⟩ := iso.exists_preimage (adj_right hw hadj)
      have hadjg : g.Adj a b := (iso.adj_iff gw ha hb).1 hadj
      have hne : b ≠ a := adj_ne gs hadjg
      by_cases hab : a < b
      · refine ⟨(a, b), (sortedEdges_mem g gw gs a b).2 ⟨hab, hadjg⟩, ?_⟩
        unfold img
        simp only
        rw [if_pos hxy]
      · refine ⟨(b, a), (sortedEdges_mem g gw gs b a).2 ⟨by omega, adj_symm gw hadjg⟩, ?_⟩
        unfold img
        simp only
        rw [if_neg (by omega)]
  have := hperm.length_eq
  rw [List.length_map] at this
  exact this.symm

/-- the edge set, as the set of unordered adjacent pairs of labels -/
def Graph.SameEdgeSet (g h : Graph) : Prop := ∀ a b, g.Adj a b ↔ h.Adj a b

open EdgeCount in
/-- **The retry loop of the permutation helper can exit.**  A well-formed simple graph that has at least
one bond and is not complete (some two different atoms are not bonded) has two atoms whose exchange changes
the edge set: there are labels `a ≠ b` and a label `c ∉ {a, b}` with `c` bonded to exactly one of them, or
… — stated abstractly: there is a bijection `π` of the labels (a transposition) such that renaming by `π`
does not preserve adjacency. -/
theorem exists_transposition_changing_edges (g : Graph) (gw : g.WF) (gs : g.Simple)
    (hbond : ∃ a b, g.Adj a b)
    (hnon : ∃ a ∈ g.labels, ∃ b ∈ g.labels, a ≠ b ∧ ¬ g.Adj a b) :
    ∃ x ∈ g.labels, ∃ y ∈ g.labels, x ≠ y ∧
      ¬ (∀ a b, g.Adj a b ↔ g.Adj (if a = x then y else if a = y then x else a)
                                   (if b = x then y else if b = y then x else b)) := by
  obtain ⟨a, b, hab⟩ := hbond
  obtain ⟨c, hc, d, hd, hcd, hncd⟩ := hnon
  have ha := adj_left hab
  have hb := adj_right gw hab
  have hne : b ≠ a := adj_ne gs hab
  apply Classical.byContradiction
  intro hcon
  have H : ∀ x ∈ g.labels, ∀ y ∈ g.labels, x ≠ y →
      ∀ a b, g.Adj a b ↔ g.Adj (if a = x then y else if a = y then x else a)
                                   (if b = x then y else if b = y then x else b) := by
    intro x hx y hy hxy
    apply Classical.byContradiction
    intro hn
    exact hcon ⟨x, hx, y, hy, hxy, hn⟩
  -- move the first endpoint of the bond onto `c`
  have step1 : ∃ b', b' ∈ g.labels ∧ b' ≠ c ∧ g.Adj c b' := by
    by_cases hac : a = c
    · subst hac; exact ⟨b, hb, hne, hab⟩
    · have h1 := (H a ha c hc hac a b).1 hab
      by_cases hbc : b = c
      · rw [if_pos (rfl : a = a), if_neg hne, if_pos hbc] at h1
        exact ⟨a, ha, hac, h1⟩
      · rw [if_pos (rfl : a = a), if_neg hne, if_neg hbc] at h1
        exact ⟨b, hb, hbc, h1⟩
  -- move the second endpoint onto `d`
  obtain ⟨b', hb', hb'c, hcb'⟩ := step1
  by_cases hbd : b' = d
  · subst hbd; exact hncd hcb'
  · have h2 := (H b' hb' d hd hbd c b').1 hcb'
    rw [if_neg (Ne.symm hb'c), if_neg hcd, if_pos (rfl : b' = b')] at h2
    exact hncd h2

end Tucan
