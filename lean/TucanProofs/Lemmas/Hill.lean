import TucanProofs.Lemmas.Tables
import TucanProofs.Lemmas.Sort
/-!
# The Hill-order formula writer only emits formulas the grammar accepts (token level)

`writeSumFormula` is the model of `_write_sum_formula`; `parseElems`/`parseFormula` are the model's
reader of the grammar rules `with_carbon` / `without_carbon`, whose element order is regenerated
from the parser's ATN on every run.
-/
namespace Tucan

/-- the count text the listener sees for a count `c ≥ 1` -/
def countText (c : Nat) : Option Str := if c > 1 then some (natRepr c) else none

/-- how the lexer classifies a number text without leading zero: one digit is a literal token,
several digits are `GREATER_THAN_NINE` -/
def numTok (ds : Str) : Tok := if ds.length = 1 then .lit ds else .big ds

/-- the token sequence of a formula given as (symbol, count) items -/
def formulaToks (items : List (Str × Nat)) : List Tok :=
  items.flatMap fun i => Tok.lit i.1 :: (if i.2 > 1 then [numTok (natRepr i.2)] else [])

/-- the text of a formula given as (symbol, count) items: `f"{k}{v}" if v > 1 else k` -/
def formulaText (items : List (Str × Nat)) : Str := (items.map fun i => symCount i.1 i.2).flatten

/- helpers live in `Tucan.Hill` so that generic names cannot clash with other lemma files -/
namespace Hill

/-! ### helper lemmas for the reader -/

theorem formulaToks_nil : formulaToks [] = [] := rfl

theorem formulaToks_cons (i : Str × Nat) (its : List (Str × Nat)) :
    formulaToks (i :: its)
      = Tok.lit i.1 :: ((if i.2 > 1 then [numTok (natRepr i.2)] else []) ++ formulaToks its) := by
  simp [formulaToks]

theorem natRepr_eq (c : Nat) : natRepr c = Nat.toDigits 10 c := by
  simp [natRepr]

theorem numTok_text (ds : Str) : (numTok ds).text = ds := by
  unfold numTok; split <;> rfl

theorem isGtOne_numTok (c : Nat) (hc : 2 ≤ c) : isGtOne (numTok (natRepr c)) = true := by
  rw [natRepr_eq]
  by_cases h : c < 10
  · rw [Nat.toDigits_of_lt_base h]
    have : c = 2 ∨ c = 3 ∨ c = 4 ∨ c = 5 ∨ c = 6 ∨ c = 7 ∨ c = 8 ∨ c = 9 := by omega
    rcases this with rfl | rfl | rfl | rfl | rfl | rfl | rfl | rfl <;> decide
  · have hlen : ¬ (Nat.toDigits 10 c).length ≤ 1 := by
      rw [Nat.length_toDigits_le_iff (by omega) (by omega)]; omega
    have : (Nat.toDigits 10 c).length ≠ 1 := by omega
    simp [numTok, this, isGtOne]

theorem isGtOne_lit_of_not_digit (s : Str) (h : digit1to9 s = false) : isGtOne (.lit s) = false := by
  simp [isGtOne, h]

theorem parseElems_skip (e : Str) (es : List Str) (s : Str) (rest : List Tok) (h : (s == e) = false) :
    parseElems (e :: es) (.lit s :: rest) = parseElems es (.lit s :: rest) := by
  simp only [parseElems, h]; rfl

theorem parseElems_count (e : Str) (es : List Str) (c : Tok) (rest : List Tok) (h : isGtOne c = true) :
    parseElems (e :: es) (.lit e :: c :: rest)
      = ((e, some c.text) :: (parseElems es rest).1, (parseElems es rest).2) := by
  simp only [parseElems, h, beq_self_eq_true, if_true]

theorem parseElems_nocount (e : Str) (es : List Str) (c : Tok) (rest : List Tok) (h : isGtOne c = false) :
    parseElems (e :: es) (.lit e :: c :: rest)
      = ((e, none) :: (parseElems es (c :: rest)).1, (parseElems es (c :: rest)).2) := by
  simp only [parseElems, h, beq_self_eq_true, if_true]; rfl

/-- the token after an item is a literal that is not a count -/
theorem formulaToks_head (items : List (Str × Nat)) (hsym : ∀ i ∈ items, digit1to9 i.1 = false)
    (rest : List Tok) :
    ∃ x tl, formulaToks items ++ Tok.lit ['/'] :: rest = Tok.lit x :: tl ∧ isGtOne (.lit x) = false := by
  cases items with
  | nil => exact ⟨['/'], rest, rfl, by decide⟩
  | cons i its =>
    refine ⟨i.1, _, by rw [formulaToks_cons]; rfl, isGtOne_lit_of_not_digit _ (hsym i (by simp))⟩

end Hill
open Hill

/-- The reader of `x? y? z? …` accepts every formula whose symbols form a sub-sequence of the rule's
element order, with any counts ≥ 1, and returns exactly its items. -/
theorem parseElems_formulaToks (order : List Str) (hnd : order.Nodup)
    (hsym : ∀ e ∈ order, digit1to9 e = false) (hslash : ['/'] ∉ order)
    (items : List (Str × Nat)) (hsub : (items.map (·.1)).Sublist order) (hpos : ∀ i ∈ items, 1 ≤ i.2)
    (rest : List Tok) :
    parseElems order (formulaToks items ++ Tok.lit ['/'] :: rest)
      = (items.map fun i => (i.1, countText i.2), Tok.lit ['/'] :: rest) := by
  induction order generalizing items with
  | nil =>
    have : items = [] := by simpa using hsub
    subst this; rfl
  | cons e es ih =>
    have hnd' : es.Nodup := (List.nodup_cons.mp hnd).2
    have he : e ∉ es := (List.nodup_cons.mp hnd).1
    have hsym' : ∀ x ∈ es, digit1to9 x = false := fun x hx => hsym x (List.mem_cons_of_mem _ hx)
    have hslash' : ['/'] ∉ es := fun h => hslash (List.mem_cons_of_mem _ h)
    cases items with
    | nil =>
      have hne : (['/'] == e) = false := by
        apply beq_false_of_ne; intro h; exact hslash (h ▸ List.mem_cons_self)
      have := ih hnd' hsym' hslash' [] (by simp) (by simp)
      simp only [formulaToks_nil, List.nil_append, List.map_nil] at this ⊢
      rw [parseElems_skip _ _ _ _ hne]; simpa using this
    | cons i its =>
      obtain ⟨s, c⟩ := i
      have hpos' : ∀ i ∈ its, 1 ≤ i.2 := fun i hi => hpos i (List.mem_cons_of_mem _ hi)
      simp only [List.map_cons] at hsub
      cases hsub with
      | cons _ hsub' =>
        -- `e` is skipped
        have hs : s ∈ es := hsub'.subset (by simp)
        have hne : (s == e) = false := by
          apply beq_false_of_ne; intro h; exact he (h ▸ hs)
        have := ih hnd' hsym' hslash' ((s, c) :: its) (by simpa using hsub') hpos
        rw [formulaToks_cons] at this ⊢
        simp only [List.cons_append] at this ⊢
        rw [parseElems_skip _ _ _ _ hne]; simpa using this
      | cons_cons _ hsub' =>
        have hsymits : ∀ i ∈ its, digit1to9 i.1 = false := fun i hi =>
          hsym' _ (hsub'.subset (List.mem_map_of_mem hi))
        have := ih hnd' hsym' hslash' its hsub' hpos'
        rw [formulaToks_cons]
        simp only [List.cons_append]
        have hc : 1 ≤ c := hpos (e, c) (by simp)
        by_cases hc1 : c > 1
        · simp only [hc1, if_true, List.cons_append, List.nil_append]
          rw [parseElems_count _ _ _ _ (isGtOne_numTok c hc1), this]
          simp [numTok_text, countText, hc1]
        · obtain ⟨x, tl, hx, hxg⟩ := formulaToks_head its hsymits rest
          simp only [hc1, if_false, List.nil_append]
          rw [hx, parseElems_nocount _ _ _ _ hxg, ← hx, this]
          simp [countText, hc1]

/-- the items `_write_sum_formula` emits for a multiset of element symbols: C and H first when carbon
is present, the rest in ascending code-point order, each with its multiplicity -/
def hillItems (syms : List Str) : List (Str × Nat) :=
  let c := countOcc ['C'] syms
  let h := countOcc ['H'] syms
  let withC := c > 0
  let head := if withC then (['C'], c) :: (if h > 0 then [(['H'], h)] else []) else []
  let rest0 := syms.filter fun s => s != ['C'] && !(withC && s == ['H'])
  head ++ (dedupAdj (rest0.mergeSort leStr)).map fun k => (k, countOcc k syms)

namespace Hill

theorem formulaText_append (a b : List (Str × Nat)) :
    formulaText (a ++ b) = formulaText a ++ formulaText b := by
  simp [formulaText]

end Hill
open Hill

/-- `_write_sum_formula` writes exactly the text of `hillItems` -/
theorem writeSumFormula_eq (g : Graph) :
    writeSumFormula g = formulaText (hillItems (g.nodes.filterMap (·.attrs.sym))) := by
  simp only [writeSumFormula, hillItems, formulaText_append]
  congr 1
  · split
    · split <;> simp [formulaText]
    · rfl
  · simp [formulaText, List.map_map, Function.comp_def]

namespace Hill

/-! ### order facts -/

theorem leStr_trans (a b c : Str) : leStr a b → leStr b c → leStr a c := by
  simp only [leStr, decide_eq_true_eq]; exact List.le_trans
theorem leStr_total (a b : Str) : (leStr a b || leStr b a) = true := by
  simp only [leStr, Bool.or_eq_true, decide_eq_true_eq]; exact List.le_total a b
theorem leStr_antisymm (a b : Str) : leStr a b → leStr b a → a = b := by
  simp only [leStr, decide_eq_true_eq]; exact List.le_antisymm

section Order
variable {α : Type} [LE α] [LT α] [Std.IsLinearOrder α] [Std.LawfulOrderLT α]

theorem mem_dedupAdj {β : Type} [BEq β] [LawfulBEq β] (a : β) (l : List β) :
    a ∈ dedupAdj l ↔ a ∈ l := by
  induction l using dedupAdj.induct with
  | case1 => simp [dedupAdj]
  | case2 => simp [dedupAdj]
  | case3 x y r h ih =>
    have : x = y := by simpa using h
    subst this
    simp only [dedupAdj, h, if_true, ih]; simp
  | case4 x y r h ih =>
    simp only [dedupAdj, h]
    simp only [Bool.false_eq_true, if_false, List.mem_cons, ih]

theorem pairwise_lt_dedupAdj [BEq α] [LawfulBEq α] (l : List α) (h : l.Pairwise (· ≤ ·)) :
    (dedupAdj l).Pairwise (· < ·) := by
  induction l using dedupAdj.induct with
  | case1 => simp [dedupAdj]
  | case2 => simp [dedupAdj]
  | case3 x y r hxy ih =>
    simp only [dedupAdj, hxy, if_true]
    exact ih (List.pairwise_cons.mp h).2
  | case4 x y r hxy ih =>
    simp only [dedupAdj, hxy, Bool.false_eq_true, if_false]
    have hne : x ≠ y := by simpa using hxy
    obtain ⟨hx, htl⟩ := List.pairwise_cons.mp h
    refine List.pairwise_cons.mpr ⟨?_, ih htl⟩
    intro z hz
    rw [mem_dedupAdj] at hz
    have hxy' : x ≤ y := hx y (by simp)
    have hxz : x ≤ z := hx z hz
    apply Std.lt_of_le_of_ne hxz
    intro hxz'
    subst hxz'
    rcases List.mem_cons.mp hz with h1 | h1
    · exact hne h1
    · exact hne (Std.le_antisymm hxy' ((List.pairwise_cons.mp htl).1 x h1))

omit [Std.IsLinearOrder α] in
theorem nodup_of_pairwise_lt (l : List α) (h : l.Pairwise (· < ·)) : l.Nodup :=
  List.Pairwise.imp (fun hab => Std.ne_of_lt hab) h

/-- a strictly ascending list whose members all occur in another strictly ascending list is a
sub-sequence of it -/
theorem sublist_of_pairwise_lt (l₁ l₂ : List α) (h₁ : l₁.Pairwise (· < ·)) (h₂ : l₂.Pairwise (· < ·))
    (hmem : ∀ x ∈ l₁, x ∈ l₂) : l₁.Sublist l₂ := by
  induction l₂ generalizing l₁ with
  | nil =>
    cases l₁ with
    | nil => exact List.Sublist.slnil
    | cons a t => exact absurd (hmem a (by simp)) (by simp)
  | cons b r ih =>
    obtain ⟨hb, hr⟩ := List.pairwise_cons.mp h₂
    cases l₁ with
    | nil => exact List.nil_sublist _
    | cons a t =>
      obtain ⟨ha, ht⟩ := List.pairwise_cons.mp h₁
      by_cases hab : a = b
      · subst hab
        refine List.Sublist.cons_cons _ (ih t ht hr ?_)
        intro x hx
        rcases List.mem_cons.mp (hmem x (List.mem_cons_of_mem _ hx)) with h | h
        · exact absurd h.symm (Std.ne_of_lt (ha x hx))
        · exact h
      · refine List.Sublist.cons _ (ih (a :: t) h₁ hr ?_)
        have har : a ∈ r := by
          rcases List.mem_cons.mp (hmem a (by simp)) with h | h
          · exact absurd h hab
          · exact h
        have hba : b < a := hb a har
        intro x hx
        rcases List.mem_cons.mp (hmem x hx) with h | h
        · subst h
          rcases List.mem_cons.mp hx with h' | h'
          · exact absurd h' (Ne.symm hab)
          · exact absurd (Std.lt_trans hba (ha x h')) Std.lt_irrefl
        · exact h
end Order

theorem pairwise_of_chainLt (l : List Str) (h : chainLt l = true) : l.Pairwise (· < ·) := by
  induction l with
  | nil => exact List.Pairwise.nil
  | cons a t ih =>
    cases t with
    | nil => simp
    | cons b r =>
      simp only [chainLt, Bool.and_eq_true, decide_eq_true_eq] at h
      have ht := ih h.2
      refine List.pairwise_cons.mpr ⟨?_, ht⟩
      intro x hx
      rcases List.mem_cons.mp hx with rfl | hx
      · exact h.1
      · exact List.lt_trans h.1 ((List.pairwise_cons.mp ht).1 x hx)

theorem countOcc_pos (s : Str) (l : List Str) : 0 < countOcc s l ↔ s ∈ l := by
  simp [countOcc, List.length_pos_iff_exists_mem]

/-! ### the writer's items -/

/-- the keys after the C/H head -/
def hillKeys (syms : List Str) : List Str :=
  dedupAdj ((syms.filter fun s =>
    s != ['C'] && !(decide (countOcc ['C'] syms > 0) && s == ['H'])).mergeSort leStr)

def hillHead (syms : List Str) : List (Str × Nat) :=
  if countOcc ['C'] syms > 0 then
    (['C'], countOcc ['C'] syms) ::
      (if countOcc ['H'] syms > 0 then [(['H'], countOcc ['H'] syms)] else [])
  else []

theorem hillItems_eq (syms : List Str) :
    hillItems syms = hillHead syms ++ (hillKeys syms).map fun k => (k, countOcc k syms) := rfl

theorem mem_hillKeys (syms : List Str) (k : Str) :
    k ∈ hillKeys syms ↔ k ∈ syms ∧ k ≠ ['C'] ∧ ¬ (0 < countOcc ['C'] syms ∧ k = ['H']) := by
  simp only [hillKeys, mem_dedupAdj, List.mem_mergeSort, List.mem_filter]
  simp only [Nat.pos_iff_ne_zero]
  by_cases h : countOcc ['C'] syms = 0 <;> simp [h]

theorem hillKeys_pairwise (syms : List Str) : (hillKeys syms).Pairwise (· < ·) := by
  apply pairwise_lt_dedupAdj
  have := List.pairwise_mergeSort (le := leStr) (fun a b c => leStr_trans a b c) leStr_total
    (syms.filter fun s => s != ['C'] && !(decide (countOcc ['C'] syms > 0) && s == ['H']))
  exact this.imp (fun h => by simpa [leStr] using h)

theorem hillItems_map_fst (syms : List Str) :
    (hillItems syms).map (·.1) = (hillHead syms).map (·.1) ++ hillKeys syms := by
  simp [hillItems_eq, List.map_map, Function.comp_def]

theorem mem_hillHead_fst (syms : List Str) (s : Str) :
    s ∈ (hillHead syms).map (·.1) ↔
      0 < countOcc ['C'] syms ∧ (s = ['C'] ∨ (s = ['H'] ∧ 0 < countOcc ['H'] syms)) := by
  unfold hillHead
  by_cases hc : countOcc ['C'] syms > 0 <;> by_cases hh : countOcc ['H'] syms > 0 <;> simp [hc, hh]

theorem hillHead_nodup (syms : List Str) : ((hillHead syms).map (·.1)).Nodup := by
  unfold hillHead
  by_cases hc : countOcc ['C'] syms > 0 <;> by_cases hh : countOcc ['H'] syms > 0 <;> simp [hc, hh]

end Hill
open Hill

/-- every count in `hillItems` is positive and is the multiplicity of the symbol; the symbols are
distinct and are exactly the symbols that occur -/
theorem hillItems_counts (syms : List Str) :
    (∀ i ∈ hillItems syms, 1 ≤ i.2 ∧ i.2 = countOcc i.1 syms) ∧
    ((hillItems syms).map (·.1)).Nodup ∧
    (∀ s, s ∈ (hillItems syms).map (·.1) ↔ s ∈ syms) := by
  refine ⟨?_, ?_, ?_⟩
  · intro i hi
    rw [hillItems_eq, List.mem_append] at hi
    rcases hi with hi | hi
    · unfold hillHead at hi
      split at hi
      · rename_i hc
        rcases List.mem_cons.mp hi with rfl | hi
        · exact ⟨hc, rfl⟩
        · split at hi
          · rename_i hh
            have := List.mem_singleton.mp hi
            subst this
            exact ⟨hh, rfl⟩
          · simp at hi
      · simp at hi
    · obtain ⟨k, hk, rfl⟩ := List.mem_map.mp hi
      exact ⟨(countOcc_pos _ _).mpr ((mem_hillKeys _ _).mp hk).1, rfl⟩
  · rw [hillItems_map_fst]
    refine List.nodup_append.mpr ⟨hillHead_nodup syms, nodup_of_pairwise_lt _ (hillKeys_pairwise syms), ?_⟩
    intro a ha b hb hab
    subst hab
    rw [mem_hillHead_fst] at ha
    rw [mem_hillKeys] at hb
    rcases ha with ⟨hc, rfl | ⟨rfl, _⟩⟩
    · exact hb.2.1 rfl
    · exact hb.2.2 ⟨hc, rfl⟩
  · intro s
    rw [hillItems_map_fst, List.mem_append, mem_hillHead_fst, mem_hillKeys]
    constructor
    · rintro (⟨hc, rfl | ⟨rfl, hh⟩⟩ | h)
      · exact (countOcc_pos _ _).mp hc
      · exact (countOcc_pos _ _).mp hh
      · exact h.1
    · intro hs
      by_cases hC : s = ['C']
      · subst hC; exact Or.inl ⟨(countOcc_pos _ _).mpr hs, Or.inl rfl⟩
      · by_cases hH : 0 < countOcc ['C'] syms ∧ s = ['H']
        · obtain ⟨hc, rfl⟩ := hH
          exact Or.inl ⟨hc, Or.inr ⟨rfl, (countOcc_pos _ _).mpr hs⟩⟩
        · exact Or.inr ⟨hs, hC, hH⟩

namespace Hill

/-! ### the two rule orders -/

theorem withoutCarbonOrder_tokens :
    withoutCarbonOrder.all (fun e => !digit1to9 e && e != ['/']) = true := by
  decide +kernel

theorem withCarbonOrder_tokens :
    withCarbonOrder.all (fun e => !digit1to9 e && e != ['/']) = true := by
  decide +kernel

theorem tokens_hsym (order : List Str) (h : order.all (fun e => !digit1to9 e && e != ['/']) = true) :
    (∀ e ∈ order, digit1to9 e = false) ∧ ['/'] ∉ order := by
  rw [List.all_eq_true] at h
  constructor
  · intro e he; have := h e he; simp at this; exact this.1
  · intro he; have := h _ he; simp at this

theorem withoutCarbonOrder_pairwise : withoutCarbonOrder.Pairwise (· < ·) :=
  pairwise_of_chainLt _ atn_withoutCarbon_is_sorted.2.2.1

theorem mem_withoutCarbonOrder (s : Str) : s ∈ withoutCarbonOrder ↔ s ∈ elementSyms ∧ s ≠ ['C'] := by
  obtain ⟨_, _, _, h1, h2⟩ := atn_withoutCarbon_is_sorted
  rw [List.all_eq_true] at h1 h2
  constructor
  · intro hs; have := h1 s hs; simpa using this
  · rintro ⟨hs, hne⟩
    have := h2 s (List.mem_filter.mpr ⟨hs, by simpa using hne⟩)
    simpa using this

theorem withCarbonOrder_eq :
    withCarbonOrder = ['C'] :: ['H'] :: withoutCarbonOrder.filter (· != ['H']) :=
  atn_withCarbon_is_hill.2.2

theorem withCarbonOrder_nodup : withCarbonOrder.Nodup := by
  rw [withCarbonOrder_eq]
  refine List.nodup_cons.mpr ⟨?_, List.nodup_cons.mpr ⟨?_, ?_⟩⟩
  · intro h
    rcases List.mem_cons.mp h with h | h
    · exact absurd h (by decide)
    · exact ((mem_withoutCarbonOrder _).mp (List.mem_filter.mp h).1).2 rfl
  · intro h
    have := (List.mem_filter.mp h).2
    simp at this
  · exact nodup_of_pairwise_lt _ (withoutCarbonOrder_pairwise.filter _)

theorem parseFormula_of_head_ne (ts : List Tok) (h : ∀ tl, ts ≠ Tok.lit ['C'] :: tl) :
    parseFormula ts = some (parseElems withoutCarbonOrder ts) := by
  unfold parseFormula
  split
  · exact absurd rfl (h _)
  · rfl

theorem parseFormula_carbon (tl : List Tok) :
    parseFormula (Tok.lit ['C'] :: tl) = some (parseElems withCarbonOrder (Tok.lit ['C'] :: tl)) := by
  have h := withCarbonOrder_eq
  simp only [parseFormula]
  generalize withCarbonOrder = o at h ⊢
  subst h
  simp

end Hill
open Hill

/-- **Hill order is accepted by the grammar, for every subset of the 118 elements and any counts.**
For any multiset of element symbols, the recogniser's `sum_formula` reader accepts the tokens of the
formula the writer emits and returns the writer's items. -/
theorem parseFormula_hillItems (syms : List Str) (hel : ∀ s ∈ syms, s ∈ elementSyms) (rest : List Tok) :
    parseFormula (formulaToks (hillItems syms) ++ Tok.lit ['/'] :: rest)
      = some ((hillItems syms).map fun i => (i.1, countText i.2), Tok.lit ['/'] :: rest) := by
  obtain ⟨hcnt, _, hmem⟩ := hillItems_counts syms
  have hpos : ∀ i ∈ hillItems syms, 1 ≤ i.2 := fun i hi => (hcnt i hi).1
  by_cases hc : countOcc ['C'] syms > 0
  · -- with carbon
    have hhead : ∃ tl, formulaToks (hillItems syms) ++ Tok.lit ['/'] :: rest = Tok.lit ['C'] :: tl := by
      rw [hillItems_eq]; unfold hillHead; rw [if_pos hc]
      exact ⟨_, by rw [List.cons_append, formulaToks_cons]; rfl⟩
    obtain ⟨tl, htl⟩ := hhead
    rw [htl, parseFormula_carbon, ← htl]
    obtain ⟨hsym, hslash⟩ := tokens_hsym _ withCarbonOrder_tokens
    rw [parseElems_formulaToks withCarbonOrder withCarbonOrder_nodup hsym hslash _ ?_ hpos]
    rw [hillItems_map_fst, withCarbonOrder_eq]
    have hkeys : (hillKeys syms).Sublist (withoutCarbonOrder.filter (· != ['H'])) := by
      apply sublist_of_pairwise_lt _ _ (hillKeys_pairwise syms) (withoutCarbonOrder_pairwise.filter _)
      intro k hk
      obtain ⟨hks, hkC, hkH⟩ := (mem_hillKeys _ _).mp hk
      refine List.mem_filter.mpr ⟨(mem_withoutCarbonOrder k).mpr ⟨hel k hks, hkC⟩, ?_⟩
      have : k ≠ ['H'] := fun h => hkH ⟨hc, h⟩
      simpa using this
    unfold hillHead
    rw [if_pos hc]
    by_cases hh : countOcc ['H'] syms > 0
    · rw [if_pos hh]
      exact List.Sublist.cons_cons _ (List.Sublist.cons_cons _ hkeys)
    · rw [if_neg hh]
      exact List.Sublist.cons_cons _ (List.Sublist.cons _ hkeys)
  · -- without carbon
    have hitems : (hillItems syms).map (·.1) = hillKeys syms := by
      rw [hillItems_map_fst]; unfold hillHead; rw [if_neg hc]; rfl
    have hne : ∀ tl, formulaToks (hillItems syms) ++ Tok.lit ['/'] :: rest ≠ Tok.lit ['C'] :: tl := by
      intro tl h
      cases hi : hillItems syms with
      | nil =>
        rw [hi, formulaToks_nil, List.nil_append] at h
        injection h with h1 _; injection h1 with h2
        exact absurd h2 (by decide)
      | cons i its =>
        rw [hi, formulaToks_cons] at h
        have h1 : i.1 = ['C'] := by injection h with h1 _; injection h1
        have : i.1 ∈ hillKeys syms := by rw [← hitems, hi]; simp
        exact ((mem_hillKeys _ _).mp this).2.1 h1
    rw [parseFormula_of_head_ne _ hne]
    obtain ⟨hsym, hslash⟩ := tokens_hsym _ withoutCarbonOrder_tokens
    rw [parseElems_formulaToks withoutCarbonOrder (nodup_of_pairwise_lt _ withoutCarbonOrder_pairwise)
      hsym hslash _ ?_ hpos]
    rw [hitems]
    apply sublist_of_pairwise_lt _ _ (hillKeys_pairwise syms) withoutCarbonOrder_pairwise
    intro k hk
    obtain ⟨hks, hkC, _⟩ := (mem_hillKeys _ _).mp hk
    exact (mem_withoutCarbonOrder k).mpr ⟨hel k hks, hkC⟩

end Tucan
