import TucanProofs.Lemmas.Tables
/-!
# Maximal munch cannot merge the tokens the serializer writes (string level of the round trip)

`lex` is the model of the ANTLR lexer: at every position the longest match among the literal tokens
and `GREATER_THAN_NINE : [1-9][0-9]+` wins.  For a token sequence in which
* after a one-letter element symbol the next token does not start with a lower-case letter, and
* after a number (digit literal or GREATER_THAN_NINE) the next token does not start with a digit,
lexing the concatenated text returns exactly the sequence.
-/
namespace Tucan

/-- a token the lexer can produce -/
def ValidTok : Tok → Bool
  | .lit s => literals.contains s
  | .big ds => match ds with
    | c :: r => ('1' ≤ c && c ≤ '9') && !r.isEmpty && r.all isDigit
    | [] => false

def startsLower (t : Tok) : Bool := match t.text with
  | c :: _ => isLower c
  | [] => false

def startsDigit (t : Tok) : Bool := match t.text with
  | c :: _ => isDigit c
  | [] => false

def isNumberTok : Tok → Bool
  | .lit s => digit1to9 s
  | .big _ => true

def isOneUpper : Tok → Bool
  | .lit [c] => isUpper c
  | _ => false

/-- `b` may directly follow `a` without the lexer reading them differently -/
def Separable (a b : Tok) : Bool :=
  !(isOneUpper a && startsLower b) && !(isNumberTok a && startsDigit b)

def chainSeparable : List Tok → Bool
  | a :: b :: r => Separable a b && chainSeparable (b :: r)
  | _ => true

def render (ts : List Tok) : Str := (ts.map Tok.text).flatten

namespace LexRender

/-! ### closed facts about the literal table -/

def litShapeOk (l : Str) : Bool :=
  match l with
  | [] => false
  | c :: r => !(decide ('1' ≤ c) && decide (c ≤ '9')) || r.isEmpty

theorem literals_shape : literals.all litShapeOk = true := by decide +kernel

def extOk (l l' : Str) : Bool :=
  match l, l' with
  | [u], _ :: c :: _ => isUpper u && isLower c
  | _, _ => false

theorem literals_ext : literals.all (fun l => literals.all (fun l' =>
    !(l.isPrefixOf l' && decide (l.length < l'.length)) || extOk l l')) = true := by decide +kernel

theorem lit_shape {l : Str} (h : l ∈ literals) : litShapeOk l = true :=
  List.all_eq_true.mp literals_shape l h

theorem lit_ext {l l' : Str} (h : l ∈ literals) (h' : l' ∈ literals) (hp : l <+: l')
    (hlen : l.length < l'.length) : extOk l l' = true := by
  have := List.all_eq_true.mp (List.all_eq_true.mp literals_ext l h) l' h'
  have hp' : l.isPrefixOf l' = true := List.isPrefixOf_iff_prefix.mpr hp
  simpa [hp', hlen] using this

/-! ### `longestLiteral` -/

def llStep (s : Str) (best : Nat) (l : Str) : Nat :=
  if l.isPrefixOf s && l.length > best then l.length else best

theorem ll_foldl (s : Str) : ∀ (lits : List Str) (best : Nat),
    best ≤ lits.foldl (llStep s) best ∧
    (∀ l ∈ lits, l <+: s → l.length ≤ lits.foldl (llStep s) best) ∧
    (lits.foldl (llStep s) best = best ∨
      ∃ l ∈ lits, l <+: s ∧ lits.foldl (llStep s) best = l.length)
  | [], best => by simp
  | a :: lits, best => by
    obtain ⟨h1, h2, h3⟩ := ll_foldl s lits (llStep s best a)
    simp only [List.foldl_cons]
    have hb : best ≤ llStep s best a := by
      unfold llStep; split
      · simp_all; omega
      · exact Nat.le_refl _
    have ha : a <+: s → a.length ≤ llStep s best a := by
      intro h; unfold llStep; split
      · exact Nat.le_refl _
      · simp_all
    have hc : llStep s best a = best ∨ (a <+: s ∧ llStep s best a = a.length) := by
      unfold llStep; split
      · simp_all
      · simp
    refine ⟨Nat.le_trans hb h1, ?_, ?_⟩
    · intro l hl hp
      rcases List.mem_cons.mp hl with rfl | hl
      · exact Nat.le_trans (ha hp) h1
      · exact h2 l hl hp
    · rcases h3 with h3 | ⟨l, hl, hp, he⟩
      · rcases hc with hc | ⟨hp, hc⟩
        · left; rw [h3, hc]
        · right; exact ⟨a, List.mem_cons_self, hp, by rw [h3, hc]⟩
      · right; exact ⟨l, List.mem_cons_of_mem _ hl, hp, he⟩

theorem longestLiteral_ge {lits : List Str} {s l : Str} (hl : l ∈ lits) (hp : l <+: s) :
    l.length ≤ longestLiteral lits s :=
  (ll_foldl s lits 0).2.1 l hl hp

theorem longestLiteral_cases (lits : List Str) (s : Str) :
    longestLiteral lits s = 0 ∨ ∃ l ∈ lits, l <+: s ∧ longestLiteral lits s = l.length :=
  (ll_foldl s lits 0).2.2

/-! ### one step of `lexGo` -/

theorem lexGo_nil (lits : List Str) (fuel : Nat) : lexGo lits fuel [] = some [] := by
  cases fuel <;> rfl

theorem lexGo_lit (lits : List Str) (fuel : Nat) (s : Str) (hs : s ≠ [])
    (hb : bigNumberLen s ≤ longestLiteral lits s) (hl : 0 < longestLiteral lits s) :
    lexGo lits (fuel + 1) s =
      (lexGo lits fuel (s.drop (longestLiteral lits s))).map
        (Tok.lit (s.take (longestLiteral lits s)) :: ·) := by
  cases s with
  | nil => exact absurd rfl hs
  | cons c r =>
    simp only [lexGo]
    rw [if_neg (by omega), if_pos (by omega)]

theorem lexGo_big (lits : List Str) (fuel : Nat) (s : Str) (hs : s ≠ [])
    (hb : longestLiteral lits s < bigNumberLen s) :
    lexGo lits (fuel + 1) s =
      (lexGo lits fuel (s.drop (bigNumberLen s))).map (Tok.big (s.take (bigNumberLen s)) :: ·) := by
  cases s with
  | nil => exact absurd rfl hs
  | cons c r =>
    simp only [lexGo]
    rw [if_pos (by omega)]

/-- what may follow token `a` in the text -/
def okAfter (a : Tok) (rest : Str) : Bool :=
  match rest with
  | [] => true
  | c :: _ => !(isOneUpper a && isLower c) && !(isNumberTok a && isDigit c)

theorem takeWhile_digits (r rest : Str) (hr : r.all isDigit = true)
    (hrest : ∀ c t, rest = c :: t → isDigit c = false) :
    (r ++ rest).takeWhile isDigit = r := by
  induction r with
  | nil =>
    cases rest with
    | nil => rfl
    | cons c t => simp [hrest c t rfl]
  | cons a r ih =>
    simp only [List.all_cons, Bool.and_eq_true] at hr
    simp [hr.1, ih hr.2]

theorem munch_lit (fuel : Nat) (l rest : Str) (hl : l ∈ literals)
    (hok : okAfter (.lit l) rest = true) :
    lexGo literals (fuel + 1) (l ++ rest) = (lexGo literals fuel rest).map (Tok.lit l :: ·) := by
  have hshape := lit_shape hl
  -- longest literal
  have hL : longestLiteral literals (l ++ rest) = l.length := by
    apply Nat.le_antisymm
    · rcases longestLiteral_cases literals (l ++ rest) with h0 | ⟨l', hl', hp', he⟩
      · omega
      · rw [he]
        apply Classical.byContradiction
        intro hgt
        have hlt : l.length < l'.length := by omega
        have hpre : l <+: l' :=
          List.prefix_of_prefix_length_le (List.prefix_append l rest) hp' (by omega)
        have hext := lit_ext hl hl' hpre hlt
        unfold extOk at hext
        split at hext
        · rename_i u a c t
          simp only [List.cons_append, List.nil_append, List.cons_prefix_cons] at hp'
          obtain ⟨_, hp'⟩ := hp'
          cases rest with
          | nil => simp at hp'
          | cons c' t' =>
            simp only [List.cons_prefix_cons] at hp'
            obtain ⟨rfl, _⟩ := hp'
            simp [okAfter, isOneUpper] at hok
            simp_all
        · exact absurd hext (by simp)
    · exact longestLiteral_ge hl (List.prefix_append l rest)
  cases l with
  | nil => simp [litShapeOk] at hshape
  | cons c r =>
    have hB : bigNumberLen ((c :: r) ++ rest) = 0 := by
      simp only [List.cons_append, bigNumberLen]
      split
      · rename_i hc
        simp only [litShapeOk, hc, Bool.not_true, Bool.false_or, List.isEmpty_iff] at hshape
        subst hshape
        have : (List.takeWhile isDigit rest) = [] := by
          cases rest with
          | nil => rfl
          | cons c' t' =>
            simp only [okAfter, isNumberTok, digit1to9, hc] at hok
            simp at hok
            simp [hok]
        simp [this]
      · rfl
    rw [lexGo_lit literals fuel _ (by simp) (by rw [hB]; omega) (by rw [hL]; simp), hL,
      List.take_left' rfl, List.drop_left' rfl]

theorem munch_big (fuel : Nat) (ds rest : Str) (hv : ValidTok (.big ds) = true)
    (hok : okAfter (.big ds) rest = true) :
    lexGo literals (fuel + 1) (ds ++ rest) = (lexGo literals fuel rest).map (Tok.big ds :: ·) := by
  cases ds with
  | nil => simp [ValidTok] at hv
  | cons c r =>
    simp only [ValidTok, Bool.and_eq_true, Bool.not_eq_true', List.isEmpty_eq_false_iff] at hv
    obtain ⟨⟨hc, hne⟩, hdig⟩ := hv
    have hrest : ∀ c' t, rest = c' :: t → isDigit c' = false := by
      intro c' t h
      subst h
      simp [okAfter, isNumberTok] at hok
      exact hok.2
    have hB : bigNumberLen ((c :: r) ++ rest) = (c :: r).length := by
      simp only [List.cons_append, bigNumberLen]
      have hc' : (decide ('1' ≤ c) && decide (c ≤ '9')) = true := by simpa using hc
      rw [if_pos hc', takeWhile_digits r rest hdig hrest]
      have : 1 ≤ r.length := by
        cases r with
        | nil => exact absurd rfl hne
        | cons _ _ => simp
      simp [this]
    have hL : longestLiteral literals ((c :: r) ++ rest) < (c :: r).length := by
      have : 2 ≤ (c :: r).length := by
        cases r with
        | nil => exact absurd rfl hne
        | cons _ _ => simp
      rcases longestLiteral_cases literals ((c :: r) ++ rest) with h0 | ⟨l', hl', hp', he⟩
      · omega
      · have hshape := lit_shape hl'
        cases l' with
        | nil => simp [litShapeOk] at hshape
        | cons c' r' =>
          simp only [List.cons_append, List.cons_prefix_cons] at hp'
          obtain ⟨rfl, _⟩ := hp'
          have hc' : (decide ('1' ≤ c') && decide (c' ≤ '9')) = true := by simpa using hc
          simp only [litShapeOk, hc', Bool.not_true, Bool.false_or, List.isEmpty_iff] at hshape
          subst hshape
          rw [he]; simp only [List.length_cons, List.length_nil] at this ⊢; omega
    rw [lexGo_big literals fuel _ (by simp) (by rw [hB]; exact hL), hB,
      List.take_left' rfl, List.drop_left' rfl]

theorem munch (fuel : Nat) (a : Tok) (rest : Str) (hv : ValidTok a = true)
    (hok : okAfter a rest = true) :
    lexGo literals (fuel + 1) (a.text ++ rest) = (lexGo literals fuel rest).map (a :: ·) := by
  cases a with
  | lit l =>
    exact munch_lit fuel l rest (List.contains_iff_mem.mp hv) hok
  | big ds => exact munch_big fuel ds rest hv hok

theorem text_ne_nil {a : Tok} (hv : ValidTok a = true) : a.text ≠ [] := by
  cases a with
  | lit l =>
    have := lit_shape (List.contains_iff_mem.mp hv)
    intro h
    simp only [Tok.text] at h
    subst h
    simp [litShapeOk] at this
  | big ds =>
    cases ds with
    | nil => simp [ValidTok] at hv
    | cons _ _ => simp [Tok.text]

theorem render_cons (a : Tok) (ts : List Tok) : render (a :: ts) = a.text ++ render ts := by
  simp [render]

theorem lexGo_render : ∀ (ts : List Tok), ts.all ValidTok = true → chainSeparable ts = true →
    ∀ fuel, (render ts).length ≤ fuel → lexGo literals fuel (render ts) = some ts
  | [], _, _, fuel, _ => lexGo_nil _ _
  | a :: ts, hv, hs, fuel, hf => by
    simp only [List.all_cons, Bool.and_eq_true] at hv
    obtain ⟨hva, hvt⟩ := hv
    rw [render_cons] at hf ⊢
    have hne := text_ne_nil hva
    have hpos : 0 < a.text.length := List.length_pos_iff.mpr hne
    rw [List.length_append] at hf
    obtain ⟨fuel, rfl⟩ : ∃ f, fuel = f + 1 := ⟨fuel - 1, by omega⟩
    have hst : chainSeparable ts = true := by
      cases ts with
      | nil => rfl
      | cons b r => simp only [chainSeparable, Bool.and_eq_true] at hs; exact hs.2
    have hok : okAfter a (render ts) = true := by
      cases ts with
      | nil => rfl
      | cons b r =>
        simp only [chainSeparable, Bool.and_eq_true] at hs
        have hsep := hs.1
        simp only [List.all_cons, Bool.and_eq_true] at hvt
        have hbne := text_ne_nil hvt.1
        rw [render_cons]
        unfold Separable startsLower startsDigit at hsep
        cases hb : b.text with
        | nil => exact absurd hb hbne
        | cons c t =>
          rw [hb] at hsep
          simpa [okAfter] using hsep
    rw [munch fuel a (render ts) hva hok, lexGo_render ts hvt hst fuel (by omega)]
    rfl

end LexRender

/-- Lexing the text of a separable sequence of valid tokens returns the sequence. -/
theorem lex_render (ts : List Tok) (hv : ts.all ValidTok = true) (hs : chainSeparable ts = true) :
    lex (render ts) = some ts :=
  LexRender.lexGo_render ts hv hs _ (Nat.le_refl _)

end Tucan
