import TucanProofs.Lemmas.Files
/-!
# V2000 property lines that name an atom more than once

`V2States` (Agreement.lean) asks the `M  CHG` / `M  RAD` / `M  ISO` lines to list every atom with a value exactly
once.  The CTfile format does not forbid naming an atom again (a later line correcting an earlier one, an entry
with value 0 revoking it); the reader then keeps, for each atom, the LAST entry naming it, and a last entry of
value 0 states nothing.  `V2StatesRep` states a molecule that way — `LastStates`: for every atom, the last entry
naming it carries the molecule's value (0 = none), and an atom no entry names has none — and the reader still
returns the molecule.  `V2States` is the special case without repetition (`v2StatesRep_of_v2States`).
-/
namespace Tucan

/-- `es` (entries `(0-based atom, value)` in file order) states `f` on `atoms`, repetitions allowed: the last
entry naming an atom carries its value, an atom named by no entry has the value 0 (= none) -/
def LastStates (f : MAtom → Int) (atoms : List MAtom) (es : List (Int × Int)) : Prop :=
  ∀ i (h : i < atoms.length),
    match (es.filter (·.1 == (i : Int))).getLast? with
    | none => f atoms[i] = 0
    | some e => e.2 = f atoms[i]

structure V2StatesRep (m : Mol) (atoms : List V2Atom) (bonds : List V2Bond) (bl : List BlockLine) : Prop where
  nAtoms : atoms.length = m.atoms.length
  nBonds : bonds.length = m.bonds.length
  sym : ∀ i (h : i < m.atoms.length) (h2 : i < atoms.length), atoms[i].sym = m.atoms[i].sym
  /-- charges and radicals: by the charge codes, or by property lines (then the codes are superseded) -/
  chgRad :
    (hasChgOrRad bl = false ∧ ∀ i (h : i < m.atoms.length) (h2 : i < atoms.length),
        chargeCode atoms[i].code = (nzI m.atoms[i].chg, nzI m.atoms[i].rad)) ∨
    (hasChgOrRad bl = true ∧ LastStates (·.chg) m.atoms (blockEntries .chg bl) ∧
        LastStates (·.rad) m.atoms (blockEntries .rad bl))
  /-- isotopes (a `D` / `T` atom has mass 0 in `m`, `Mol.Ok.dt`: its symbol carries the mass, so no entry, or a
  last entry 0, names it) -/
  iso : LastStates (·.mass) m.atoms (blockEntries .mass bl)
  bond : ∀ j (h : j < m.bonds.length) (h2 : j < bonds.length),
    bonds[j].a = (m.bonds[j].a : Int) + 1 ∧ bonds[j].b = (m.bonds[j].b : Int) + 1 ∧ bonds[j].t = m.bonds[j].t

namespace Agree

/-- the technical form `v2_dict` uses -/
theorem lastStates_nonZero (f : MAtom → Int) (atoms : List MAtom) (es : List (Int × Int))
    (h : LastStates f atoms es) (i : Nat) (hi : i < atoms.length) :
    nonZero (((es.filter (·.1 == (i : Int))).getLast?).map (·.2)) = nzI (f atoms[i]) := by
  have h' := h i hi
  rw [← nonZero_nzI]
  cases hg : (es.filter (·.1 == (i : Int))).getLast? with
  | none =>
    rw [hg] at h'
    simp only at h'
    simp [h', nonZero]
  | some e =>
    rw [hg] at h'
    simp only at h'
    simp only [Option.map_some, h']
    by_cases hz : f atoms[i] = 0
    · simp [hz, nonZero]
    · simp only [hz, if_false]

/-- entries without repetition are a special case -/
theorem lastStates_of_perm (f : MAtom → Int) (atoms : List MAtom) (es : List (Int × Int))
    (hp : es.Perm (entriesOf f atoms)) : LastStates f atoms es := by
  intro i hi
  have h1 := hp.filter (·.1 == (i : Int))
  have h2 := entries_filter f atoms 0 i hi
  rw [Nat.zero_add] at h2
  unfold entriesOf at h1
  rw [h2] at h1
  by_cases hz : f atoms[i] = 0
  · simp only [hz, if_true] at h1
    rw [List.perm_nil.1 h1]
    exact hz
  · simp only [hz, if_false] at h1
    rw [List.perm_singleton.1 h1]
    rfl

end Agree

theorem v2StatesRep_of_v2States (m : Mol) (atoms : List V2Atom) (bonds : List V2Bond)
    (bl : List BlockLine) (h : V2States m atoms bonds bl) : V2StatesRep m atoms bonds bl := by
  obtain ⟨h1, h2, h3, h4, h5, h6⟩ := h
  refine ⟨h1, h2, h3, ?_, Agree.lastStates_of_perm _ _ _ h5, h6⟩
  rcases h4 with h4 | ⟨hf, hc, hr⟩
  · exact Or.inl h4
  · exact Or.inr ⟨hf, Agree.lastStates_of_perm _ _ _ hc, Agree.lastStates_of_perm _ _ _ hr⟩

theorem v2_dict_rep (m : Mol) (hm : m.Ok) (atoms : List V2Atom) (bonds : List V2Bond) (bl : List BlockLine)
    (hok : ∀ a ∈ atoms, a.Ok) (h : V2StatesRep m atoms bonds bl) :
    applyBlock bl (atoms.zipIdx.map fun (a, i) => ((i : Int), a.record)) = m.atomDict (v2Coords atoms) := by
  obtain ⟨hn, -, hsym, hcr, hiso, -⟩ := h
  have hlc : (v2Coords atoms).length = m.atoms.length := by simp [v2Coords, hn]
  apply List.ext_getElem
  · simp [applyBlock, Agree.atomDict_length m _ hlc, hn]
  · intro i h1 h2
    have hi : i < atoms.length := by simpa [applyBlock] using h1
    have hi' : i < m.atoms.length := by omega
    rw [Agree.atomDict_getElem m _ i h2 hi' (by omega)]
    have hS := hsym i hi' hi
    have hZ := (hok atoms[i] (List.getElem_mem hi)).z
    have hmass : nonZero (lastAssigned (allAssignments bl) .mass (i : Int)) = nzI m.atoms[i].mass := by
      rw [Agree.lastAssigned_eq]
      exact Agree.lastStates_nonZero (·.mass) m.atoms _ hiso i hi'
    have hdt := hm.dt m.atoms[i] (List.getElem_mem hi')
    have hchg : (nonZero (lastAssigned (allAssignments bl) .chg (i : Int)) <|>
          (if hasChgOrRad bl then none else (chargeCode atoms[i].code).1)) = nzI m.atoms[i].chg ∧
        (nonZero (lastAssigned (allAssignments bl) .rad (i : Int)) <|>
          (if hasChgOrRad bl then none else (chargeCode atoms[i].code).2)) = nzI m.atoms[i].rad := by
      rcases hcr with ⟨hf, hcode⟩ | ⟨hf, hpc, hpr⟩
      · obtain ⟨e1, e2⟩ := Agree.blockEntries_of_no_chgRad bl hf
        rw [Agree.lastAssigned_eq, Agree.lastAssigned_eq, e1, e2, hf, hcode i hi' hi]
        exact ⟨rfl, rfl⟩
      · rw [Agree.lastAssigned_eq, Agree.lastAssigned_eq, hf,
          Agree.lastStates_nonZero (·.chg) m.atoms _ hpc i hi', Agree.lastStates_nonZero (·.rad) m.atoms _ hpr i hi']
        simp
    obtain ⟨hc1, hc2⟩ := hchg
    have hM : (nzI m.atoms[i].mass <|> (if (detectHydrogenIsotopes m.atoms[i].sym).2 = 0 then none
          else some (detectHydrogenIsotopes m.atoms[i].sym).2)) =
        (if (detectHydrogenIsotopes m.atoms[i].sym).2 = 0 then nzI m.atoms[i].mass
          else some (detectHydrogenIsotopes m.atoms[i].sym).2) := by
      by_cases hz : (detectHydrogenIsotopes m.atoms[i].sym).2 = 0
      · simp [hz]
      · simp [hz, hdt hz, nzI]
    rw [hS] at hZ
    cases hf : hasChgOrRad bl <;> rw [hf] at hc1 hc2 <;>
      simp only [applyBlock, List.getElem_map, List.getElem_zipIdx, v2Coords, hf, V2Atom.record, MAtom.record,
        Bool.false_eq_true, if_false, if_true, hmass, hS, hZ, hM, Nat.zero_add] <;>
      simp only [Bool.false_eq_true, if_false, if_true] at hc1 hc2 <;>
      simp only [hc1, hc2]

theorem v2_bonds_rep (m : Mol) (hm : m.Ok) (atoms : List V2Atom) (bonds : List V2Bond) (bl : List BlockLine)
    (h : V2StatesRep m atoms bonds bl) :
    bonds.foldl (fun d b => ainsert (b.a - 1, b.b - 1) ({ btype := some b.t } : Bond) d) [] = m.bondDict := by
  have _ := hm
  rw [Agree.bondDict_eq_fold]
  have e1 : bonds.foldl (fun d b => ainsert (b.a - 1, b.b - 1) ({ btype := some b.t } : Bond) d) [] =
      (bonds.map fun b => ((b.a - 1, b.b - 1), ({ btype := some b.t } : Bond))).foldl
        (fun d p => ainsert p.1 p.2 d) [] := by
    simp only [List.foldl_map]
  rw [e1]
  congr 1
  apply List.ext_getElem
  · simp [Agree.bondPairs, h.nBonds]
  · intro j h1 h2
    have hj : j < bonds.length := by simpa using h1
    obtain ⟨b1, b2, b3⟩ := h.bond j (by have := h.nBonds; omega) hj
    simp only [Agree.bondPairs, List.getElem_map, b1, b2, b3, Prod.mk.injEq, and_true]
    omega

/-- **a V2000 file that states `m`, atoms possibly named several times in its property lines, is read as `m`** -/
theorem v2000_reads_mol_rep (m : Mol) (hm : m.Ok) (lines : List Str) (atoms : List V2Atom) (bonds : List V2Bond)
    (bl : List BlockLine) (f : IsV2000File lines atoms bonds bl) (h : V2StatesRep m atoms bonds bl) :
    graphAttributesV2000 lines = .ok (m.atomDict (v2Coords atoms), m.bondDict) := by
  rw [f.reads, v2_dict_rep m hm atoms bonds bl f.atomsOk h, v2_bonds_rep m hm atoms bonds bl h]

/-- text level -/
theorem v2000_text_reads_mol_rep (m : Mol) (hm : m.Ok) (text : Str) (lines : List Str)
    (atoms : List V2Atom) (bonds : List V2Bond) (bl : List BlockLine) (ht : IsTextOf text lines)
    (f : IsV2000File lines atoms bonds bl)
    (hver : ∀ l3, lines[3]? = some l3 → EndsInWord l3 (cs "V2000"))
    (h : V2StatesRep m atoms bonds bl) : ReadsAs text m (v2Coords atoms) := by
  obtain ⟨hnb, eol, he, htext⟩ := ht
  have hl3 : ∃ l3, lines[3]? = some l3 := by
    obtain ⟨h0, h1, h2, ct, lists, blockLines, tail, rfl, _⟩ := f
    exact ⟨_, rfl⟩
  obtain ⟨l3, hl3⟩ := hl3
  have := (graphFromMolfileText_dispatch eol he lines hnb text htext l3 hl3).2 (hver l3 hl3)
  rw [ReadsAs, this, v2000_reads_mol_rep m hm lines atoms bonds bl f h]
  rfl

/-- non-vacuity with a genuine repetition: `[13C]` stated by `M  ISO` entries `(1, 12)` then `(1, 13)`, and a
charge first given as 2, then revoked by an entry 0 (the `M  CHG` line is present, so the decoy charge code 3 on
the atom line is superseded) -/
def repExampleMol : Mol := { atoms := [{ sym := ['C'], chg := 0, rad := 0, mass := 13 }], bonds := [] }
def repExampleAtoms : List V2Atom :=
  [{ fx := cs "    0.0000", fy := cs "    0.0000", fz := cs "    0.0000", sym := ['C'], code := 3, z := 6, tail := [] }]
def repExampleBlock : List BlockLine :=
  [.assign .mass [(0, 12)], .assign .chg [(0, 2)], .assign .mass [(0, 13)], .other, .assign .chg [(0, 0)]]

theorem repExample : V2StatesRep repExampleMol repExampleAtoms [] repExampleBlock := by
  have h0 : ∀ i, i < repExampleMol.atoms.length → i = 0 := by
    intro i hi
    simp [repExampleMol] at hi
    exact hi
  refine ⟨rfl, rfl, ?_, Or.inr ⟨rfl, ?_, ?_⟩, ?_, ?_⟩
  · intro i hi _
    have := h0 i hi
    subst this
    rfl
  · intro i hi
    have := h0 i hi
    subst this
    simp [repExampleMol, repExampleBlock, blockEntries]
  · intro i hi
    have := h0 i hi
    subst this
    simp [repExampleMol, repExampleBlock, blockEntries]
  · intro i hi
    have := h0 i hi
    subst this
    simp [repExampleMol, repExampleBlock, blockEntries]
  · intro j hj
    simp [repExampleMol] at hj

end Tucan
