import TucanProofs.Lemmas.Files
/-!
# A concrete pair of files: the hypotheses of the file-level theorems are satisfiable

The molecule `[13C]-O(-)-D`: a carbon of mass 13, an oxygen with charge −1, a deuterium written `D`;
bonds C–O and O–D.  Its V3000 file (the second atom line written with runs of blanks and split over two
physical lines inside a token) and its V2000 file (charge by an `M  CHG` line with a decoy charge code in the
atom block, isotope by an `M  ISO` line, an unrelated line in between) are shown to meet every hypothesis of
`C08_readers_agree` / `C08_same_string` / `C06_files_same_string`.
-/
namespace Tucan
namespace FilesExample

def mol : Mol :=
  { atoms := [{ sym := ['C'], chg := 0, rad := 0, mass := 13 },
              { sym := ['O'], chg := -1, rad := 0, mass := 0 },
              { sym := ['D'], chg := 0, rad := 0, mass := 0 }],
    bonds := [{ a := 0, b := 1, t := 1 }, { a := 1, b := 2, t := 1 }] }

def coords3 : List (Str × Str × Str) :=
  [(cs "0", cs "0", cs "0"), (cs "1.5", cs "0", cs "0"), (cs "2.5", cs "0", cs "0")]

def atoms3 : List AtomEntry :=
  [.real (cs "1") 1 ['C'] (cs "0") (cs "0") (cs "0") (cs "0") [.mass 13],
   .real (cs "2") 2 ['O'] (cs "1.5") (cs "0") (cs "0") (cs "0") [.other (cs "CFG=0"), .chg (-1)],
   .real (cs "3") 3 ['D'] (cs "2.5") (cs "0") (cs "0") (cs "0") []]

def bonds3 : List BondEntry :=
  [{ idxTok := cs "1", btype := 1, a1 := 1, a2 := 2, pre := [], ends := none, post := [] },
   { idxTok := cs "2", btype := 1, a1 := 2, a2 := 3, pre := [], ends := none, post := [] }]

def lines3 : List Str :=
  [cs "", cs "  example", cs "", cs "  0  0  0     0  0            999 V3000",
   cs "M  V30 BEGIN CTAB",
   cs "M  V30 COUNTS 3 2 0 0 0",
   cs "M  V30 BEGIN ATOM",
   cs "M  V30 1 C 0 0 0 0 MASS=13",
   cs "M  V30 2   O 1.-",
   cs "M  V30 5 0  0 0 CFG=0 CHG=-1",
   cs "M  V30 3 D 2.5 0 0 0",
   cs "M  V30 END ATOM",
   cs "M  V30 BEGIN BOND",
   cs "M  V30 1 1 1 2",
   cs "M  V30 2 1 2 3",
   cs "M  V30 END BOND",
   cs "M  V30 END CTAB",
   cs "M  END"]

def atoms2 : List V2Atom :=
  [{ fx := cs "    0.0000", fy := cs "    0.0000", fz := cs "    0.0000", sym := ['C'], code := 0, z := 6, tail := cs "  0  0" },
   { fx := cs "    1.5000", fy := cs "    0.0000", fz := cs "    0.0000", sym := ['O'], code := 3, z := 8, tail := cs "  0  0" },
   { fx := cs "    2.5000", fy := cs "    0.0000", fz := cs "    0.0000", sym := ['D'], code := 0, z := 1, tail := [] }]

def bonds2 : List V2Bond :=
  [{ a := 1, b := 2, t := 1, tail := cs "  0" }, { a := 2, b := 3, t := 1, tail := cs "  0" }]

def block : List BlockLine :=
  [.assign .chg [(1, -1)], .other, .assign .mass [(0, 13)]]

def lines2 : List Str :=
  [cs "", cs "  example", cs "",
   cs "  3  2  0  0  0  0  0  0  0  0999 V2000",
   cs "    0.0000    0.0000    0.0000 C   0  0  0  0",
   cs "    1.5000    0.0000    0.0000 O   0  3  0  0",
   cs "    2.5000    0.0000    0.0000 D   0  0",
   cs "  1  2  1  0",
   cs "  2  3  1  0",
   cs "M  CHG  1   2  -1",
   cs "M  STY  1   1 SUP",
   cs "M  ISO  1   1  13",
   cs "M  END",
   cs "$$$$"]

theorem mol_ok : mol.Ok := by
  refine ⟨?_, ?_, ?_, ?_⟩
  · intro a ha
    simp only [mol, List.mem_cons, List.not_mem_nil, or_false] at ha
    rcases ha with rfl | rfl | rfl
    · left; decide +kernel
    · left; decide +kernel
    · right; left; rfl
  · intro a ha
    simp only [mol, List.mem_cons, List.not_mem_nil, or_false] at ha
    rcases ha with rfl | rfl | rfl
    · intro h; exact absurd (by decide) h
    · intro _; rfl
    · intro _; rfl
  · intro b hb
    simp only [mol, List.mem_cons, List.not_mem_nil, or_false] at hb
    rcases hb with rfl | rfl <;> decide
  · decide

/-- a logical line written with single blanks on one physical line -/
theorem rendered_plain (toks : List Str) (l : Str)
    (h : l = v30Prefix ++ joinBlanks 0 0 toks []) (hd : endsWithChar l '-' = false)
    (ht : ∀ t ∈ toks, IsToken t) : Rendered toks [l] := by
  subst h
  refine ⟨⟨0, 0, [], [], joinBlanks 0 0 toks [], rfl, rfl, ?_⟩, ht⟩
  simpa using hd

theorem isV3000File : IsV3000File lines3 atoms3 bonds3 := by
  refine ⟨cs "", cs "  example", cs "", cs "  0  0  0     0  0            999 V3000",
    [cs "BEGIN", cs "CTAB"], [cs "0", cs "0", cs "0"],
    [cs "M  V30 END CTAB", cs "M  END"], [cs "M  V30 END CTAB", cs "M  END"],
    [cs "M  V30 BEGIN CTAB"], [cs "M  V30 COUNTS 3 2 0 0 0"], [cs "M  V30 BEGIN ATOM"], [cs "M  V30 END ATOM"],
    [cs "M  V30 BEGIN BOND"], [cs "M  V30 END BOND"],
    [[cs "M  V30 1 C 0 0 0 0 MASS=13"], [cs "M  V30 2   O 1.-", cs "M  V30 5 0  0 0 CFG=0 CHG=-1"],
      [cs "M  V30 3 D 2.5 0 0 0"]],
    [[cs "M  V30 1 1 1 2"], [cs "M  V30 2 1 2 3"]],
    by decide, by decide, ?_, ?_, ?_, ?_, ?_, ?_, ?_, ?_, ?_, ?_, by decide +kernel, ?_, by decide⟩
  · exact rendered_plain _ _ (by decide +kernel) (by decide +kernel) (by unfold IsToken; decide +kernel)
  · exact rendered_plain _ _ (by decide +kernel) (by decide +kernel) (by unfold IsToken; decide +kernel)
  · exact rendered_plain _ _ (by decide +kernel) (by decide +kernel) (by unfold IsToken; decide +kernel)
  · exact rendered_plain _ _ (by decide +kernel) (by decide +kernel) (by unfold IsToken; decide +kernel)
  · exact rendered_plain _ _ (by decide +kernel) (by decide +kernel) (by unfold IsToken; decide +kernel)
  · exact rendered_plain _ _ (by decide +kernel) (by decide +kernel) (by unfold IsToken; decide +kernel)
  · refine .cons ?_ (.cons ?_ (.cons ?_ .nil))
    · exact rendered_plain _ _ (by decide +kernel) (by decide +kernel) (by unfold IsToken; decide +kernel)
    · refine ⟨⟨0, 0, [2, 0, 0, 1, 0, 0, 0], [cs "2   O 1."], cs "5 0  0 0 CFG=0 CHG=-1",
        by decide +kernel, by decide +kernel, by decide +kernel⟩, by unfold IsToken; decide +kernel⟩
    · exact rendered_plain _ _ (by decide +kernel) (by decide +kernel) (by unfold IsToken; decide +kernel)
  · refine .cons ?_ (.cons ?_ .nil)
    · exact rendered_plain _ _ (by decide +kernel) (by decide +kernel) (by unfold IsToken; decide +kernel)
    · exact rendered_plain _ _ (by decide +kernel) (by decide +kernel) (by unfold IsToken; decide +kernel)
  · intro e he
    simp only [atoms3, List.mem_cons, List.not_mem_nil, or_false] at he
    rcases he with rfl | rfl | rfl
    · refine ⟨rfl, by unfold NotKeyword IsToken; decide +kernel, by unfold NotKeyword IsToken; decide +kernel,
        by unfold IsToken; decide +kernel, ?_, Or.inl (by decide +kernel)⟩
      intro p hp
      simp only [List.mem_cons, List.not_mem_nil, or_false] at hp
      subst hp
      show (intRepr 13).length ≤ intMaxStrDigits
      decide +kernel
    · refine ⟨rfl, by unfold NotKeyword IsToken; decide +kernel, by unfold NotKeyword IsToken; decide +kernel,
        by unfold IsToken; decide +kernel, ?_, Or.inl (by decide +kernel)⟩
      intro p hp
      simp only [List.mem_cons, List.not_mem_nil, or_false] at hp
      rcases hp with rfl | rfl
      · show NotKeyword (cs "CFG=0")
        unfold NotKeyword IsToken; decide +kernel
      · show (intRepr (-1)).length ≤ intMaxStrDigits
        decide +kernel
    · refine ⟨rfl, by unfold NotKeyword IsToken; decide +kernel, by unfold NotKeyword IsToken; decide +kernel,
        by unfold IsToken; decide +kernel, ?_, Or.inr (Or.inl rfl)⟩
      intro p hp
      cases hp
  · intro b hb
    simp only [bonds3, List.mem_cons, List.not_mem_nil, or_false] at hb
    rcases hb with rfl | rfl
    · exact ⟨by unfold IsToken; decide +kernel, by decide +kernel, (fun t ht => by cases ht), (fun t ht => by cases ht),
        (fun es h => by cases h)⟩
    · exact ⟨by unfold IsToken; decide +kernel, by decide +kernel, (fun t ht => by cases ht), (fun t ht => by cases ht),
        (fun es h => by cases h)⟩
  · rw [concatLinesWithDash]
    have h : (startsWith (cs "M  V30 END CTAB") v30Prefix && endsWithChar (cs "M  V30 END CTAB") '-') = false := by
      decide +kernel
    rw [if_neg (by rw [h]; decide), concatLinesWithDash]
    rfl

theorem v3States : V3States mol coords3 atoms3 bonds3 := by
  refine ⟨⟨rfl, rfl⟩, rfl, ?_, ?_⟩
  · intro i h h1 h2
    have h' : i < 3 := h
    match i, h' with
    | 0, _ => exact ⟨cs "1", cs "0", [.mass 13], rfl, rfl, rfl, fun _ => rfl⟩
    | 1, _ => exact ⟨cs "2", cs "0", [.other (cs "CFG=0"), .chg (-1)], rfl, rfl, rfl, fun _ => rfl⟩
    | 2, _ => exact ⟨cs "3", cs "0", [], rfl, rfl, rfl, fun h0 => absurd h0 (show ¬ ((2 : Int) = 0) by decide)⟩
  · intro j h h2
    have h' : j < 2 := h
    match j, h' with
    | 0, _ => exact ⟨rfl, rfl, rfl⟩
    | 1, _ => exact ⟨rfl, rfl, rfl⟩

theorem version3 : ∀ l3, lines3[3]? = some l3 → EndsInWord l3 (cs "V3000") := by
  intro l3 h
  have : l3 = cs "  0  0  0     0  0            999 V3000" := by
    simp only [lines3, List.getElem?_cons_succ, List.getElem?_cons_zero, Option.some.injEq] at h
    exact h.symm
  subst this
  refine ⟨cs "  0  0  0     0  0            999", [], by decide, by simp, by decide, by decide⟩

theorem isV2000File : IsV2000File lines2 atoms2 bonds2 block := by
  refine ⟨cs "", cs "  example", cs "", cs "  0  0  0  0  0  0  0999 V2000", [],
    [cs "M  CHG  1   2  -1", cs "M  STY  1   1 SUP", cs "M  ISO  1   1  13"], [cs "$$$$"],
    by decide +kernel, ?_, by decide +kernel, by decide +kernel, by decide +kernel, ?_, ?_, ?_, ?_⟩
  · intro a ha
    simp only [atoms2, List.mem_cons, List.not_mem_nil, or_false] at ha
    rcases ha with rfl | rfl | rfl
    · exact ⟨⟨rfl, Or.inr (by decide +kernel)⟩, ⟨rfl, Or.inr (by decide +kernel)⟩, ⟨rfl, Or.inr (by decide +kernel)⟩,
        by decide, rfl, by decide +kernel⟩
    · exact ⟨⟨rfl, Or.inr (by decide +kernel)⟩, ⟨rfl, Or.inr (by decide +kernel)⟩, ⟨rfl, Or.inr (by decide +kernel)⟩,
        by decide, rfl, by decide +kernel⟩
    · exact ⟨⟨rfl, Or.inr (by decide +kernel)⟩, ⟨rfl, Or.inr (by decide +kernel)⟩, ⟨rfl, Or.inr (by decide +kernel)⟩,
        by decide, rfl, by decide +kernel⟩
  · intro b hb
    simp only [bonds2, List.mem_cons, List.not_mem_nil, or_false] at hb
    rcases hb with rfl | rfl <;> decide +kernel
  · intro b hb
    simp only [bonds2, List.mem_cons, List.not_mem_nil, or_false] at hb
    rcases hb with rfl | rfl <;> (unfold SkippedLine; decide +kernel)
  · intro l hl
    cases hl
  · refine .cons ⟨by decide, ?_⟩ (.cons (by unfold BlockLine.Renders; decide) (.cons ⟨by decide, ?_⟩ .nil))
    · have h := parseAtomValueAssignments_propLine (cs "CHG") rfl [(2, -1)] (by decide +kernel) (by decide +kernel)
        (atoms2.zipIdx.map fun (a, i) => ((i : Int), a.record)) (by
          intro e he
          simp only [List.mem_cons, List.not_mem_nil, or_false] at he
          subst he
          rfl)
      exact h
    · have h := parseAtomValueAssignments_propLine (cs "ISO") rfl [(1, 13)] (by decide +kernel) (by decide +kernel)
        (atoms2.zipIdx.map fun (a, i) => ((i : Int), a.record)) (by
          intro e he
          simp only [List.mem_cons, List.not_mem_nil, or_false] at he
          subst he
          rfl)
      exact h

theorem v2States : V2States mol atoms2 bonds2 block := by
  refine ⟨rfl, rfl, ?_, Or.inr ⟨rfl, ?_, ?_⟩, ?_, ?_⟩
  · intro i h h2
    have h' : i < 3 := h
    match i, h' with
    | 0, _ => rfl
    | 1, _ => rfl
    | 2, _ => rfl
  · have e : blockEntries .chg block = entriesOf (·.chg) mol.atoms := by decide
    rw [e]
  · have e : blockEntries .rad block = entriesOf (·.rad) mol.atoms := by decide
    rw [e]
  · have e : blockEntries .mass block = entriesOf (·.mass) mol.atoms := by decide
    rw [e]
  · intro j h h2
    have h' : j < 2 := h
    match j, h' with
    | 0, _ => exact ⟨rfl, rfl, rfl⟩
    | 1, _ => exact ⟨rfl, rfl, rfl⟩

theorem version2 : ∀ l3, lines2[3]? = some l3 → EndsInWord l3 (cs "V2000") := by
  intro l3 h
  have : l3 = cs "  3  2  0  0  0  0  0  0  0  0999 V2000" := by
    simp only [lines2, List.getElem?_cons_succ, List.getElem?_cons_zero, Option.some.injEq] at h
    exact h.symm
  subst this
  refine ⟨cs "  3  2  0  0  0  0  0  0  0  0999", [], by decide, by simp, by decide, by decide⟩

/-- with `\r\n` after every line -/
theorem isTextOf3 : IsTextOf (fileText ['\r', '\n'] lines3) lines3 := by
  refine ⟨?_, ['\r', '\n'], Or.inr (Or.inl rfl), Or.inl rfl⟩
  unfold WR.NoBreak
  decide

/-- with `\n` between the lines and none after the last -/
theorem isTextOf2 : IsTextOf (fileTextNoTrail ['\n'] lines2) lines2 := by
  refine ⟨?_, ['\n'], Or.inl rfl, Or.inr ⟨rfl, ?_⟩⟩
  · unfold WR.NoBreak
    decide
  · intro l h
    have : l = cs "$$$$" := by
      simp [lines2] at h
      exact h.symm
    subst this
    decide

/-- both readers return the molecule's dictionaries -/
theorem readers_agree :
    graphAttributesV3000 lines3 = .ok (mol.atomDict coords3, mol.bondDict) ∧
    graphAttributesV2000 lines2 = .ok (mol.atomDict (v2Coords atoms2), mol.bondDict) :=
  ⟨v3000_reads_mol mol mol_ok coords3 lines3 atoms3 bonds3 isV3000File v3States,
   v2000_reads_mol mol mol_ok lines2 atoms2 bonds2 block isV2000File v2States⟩

/-- both texts are read, and to graphs that get the same string -/
theorem texts_read :
    ReadsAs (fileText ['\r', '\n'] lines3) mol coords3 ∧ ReadsAs (fileTextNoTrail ['\n'] lines2) mol (v2Coords atoms2) :=
  ⟨v3000_text_reads_mol mol mol_ok coords3 _ lines3 atoms3 bonds3 isTextOf3 isV3000File version3 v3States,
   v2000_text_reads_mol mol mol_ok _ lines2 atoms2 bonds2 block isTextOf2 isV2000File version2 v2States⟩

end FilesExample
end Tucan
