import TucanProofs.Lemmas.Pipeline
/-!
# C15 (model level) — the pipeline returns for every non-empty molecule

No `recursion`, `assertion`, `indexError`, `keyError`, `valueError` (or fuel exhaustion, `other`) result is
reachable from a well-formed non-empty molecule graph whose atoms carry an atomic number and an invariant
code, for any oracle that returns a permutation of the vertices: refinement stops within its fuel
(`refinePartitions_ok`), the BFS relabelling never pops an empty list and meets its assertion
(`finalLabels_ok`), every lookup hits.
-/
namespace Tucan
open NxRelabel

namespace Totality
open EqAux SerializeCongr

theorem attrs_of_attrs? {g : Graph} {a : Nat} {x : Atom} (h : g.attrs? a = some x) : g.attrs a = .ok x := by
  unfold Graph.attrs? at h
  unfold Graph.attrs
  cases hf : g.find? a with
  | none => rw [hf] at h; cases h
  | some n =>
    rw [hf] at h
    simp only [Option.map_some, Option.some.injEq] at h
    simp only [h]

theorem neighbors_of_mem {g : Graph} {a : Nat} (ha : a ∈ g.labels) : g.neighbors a = .ok (g.nbrs a) := by
  unfold Graph.neighbors Graph.nbrs
  cases hf : g.find? a with
  | none => exact absurd ha (find?_eq_none_iff.mp hf)
  | some n => rfl

/-- `attribute_sequence` returns as soon as every atom carries the attribute -/
theorem attributeSequence_total_gen {g : Graph} (hw : g.WF) (attr : AttrName)
    (hall : ∀ b ∈ g.labels, ∃ x κ, g.attrs? b = some x ∧ x.key attr = some κ)
    {a : Nat} (ha : a ∈ g.labels) : ∃ s, attributeSequence g a attr = .ok s := by
  have key : ∀ b ∈ g.labels, ∃ x κ, g.attrs b = .ok x ∧ x.key attr = some κ := by
    intro b hb
    obtain ⟨x, κ, hx, hκ⟩ := hall b hb
    exact ⟨x, κ, attrs_of_attrs? hx, hκ⟩
  obtain ⟨x, κ, hx, hκ⟩ := key a ha
  have hnb := neighbors_of_mem ha
  obtain ⟨nk, hnk⟩ := mapM_ok_of_forall
    (fun n => do let an ← g.attrs n; (an.key attr).elim (.error .keyError) .ok) (g.nbrs a) (by
      intro n hn
      obtain ⟨y, κ', hy, hκ'⟩ := key n (Graph.nbrs_closed hw hn)
      exact ⟨κ', by simp [hy, hκ', bind, Except.bind]⟩)
  refine ⟨κ :: sortKDesc nk, ?_⟩
  unfold attributeSequence
  simp only [hx, hκ, hnb, bind, Except.bind, Option.elim_some]
  simp only [bind, Except.bind] at hnk
  rw [hnk]
  rfl

/-- `partition_molecule_by_attribute` returns as soon as every atom carries the attribute -/
theorem partition_total_gen {g : Graph} (hw : g.WF) (attr : AttrName)
    (hall : ∀ b ∈ g.labels, ∃ x κ, g.attrs? b = some x ∧ x.key attr = some κ) :
    ∃ h, partitionMoleculeByAttribute g attr = .ok h := by
  obtain ⟨seqs, hseqs⟩ := mapM_ok_of_forall (fun a => attributeSequence g a attr) g.labels
    (fun a ha => attributeSequence_total_gen hw attr hall ha)
  unfold partitionMoleculeByAttribute
  simp only [hseqs, bind, Except.bind, pure, Except.pure]
  exact ⟨_, rfl⟩

/-- `sort_molecule_by_attribute` returns on a non-empty graph all of whose atoms carry the attribute -/
theorem sortBy_total {g : Graph} (hw : g.WF) (attr : AttrName) (hne : g.labels ≠ [])
    (hall : ∀ b ∈ g.labels, ∃ x κ, g.attrs? b = some x ∧ x.key attr = some κ) :
    ∃ r, sortMoleculeByAttribute g attr = .ok r := by
  obtain ⟨wl, hwl⟩ := mapM_ok_of_forall
    (fun a => (attributeSequence g a attr).bind fun s => Except.ok (s, a)) g.labels (by
      intro a ha
      obtain ⟨s, hs⟩ := attributeSequence_total_gen hw attr hall ha
      exact ⟨(s, a), by rw [hs]; rfl⟩)
  have hwl' : wl = g.labels.map (fun a => (seqOf g attr a, a)) := by
    refine mapM_ok_eq_map _ _ g.labels wl ?_ hwl
    intro a _ y hy
    cases hs : attributeSequence g a attr with
    | error e => rw [hs] at hy; cases hy
    | ok s =>
      rw [hs] at hy
      simp only [Except.bind, Except.ok.injEq] at hy
      rw [← hy, attributeSequence_ok hs]
  have hemp : wl.isEmpty = false := by
    rw [hwl']
    cases hl : g.labels with
    | nil => exact absurd hl hne
    | cons a t => rfl
  rw [sortBy_unfold, hwl]
  simp only [Except.bind, hemp, Bool.false_eq_true, if_false]
  exact ⟨_, rfl⟩

end Totality
open Totality EqAux SerializeCongr

/-- `canonicalize_molecule` returns -/
theorem canonicalize_total (order : Graph → List Nat) (g : Graph) (hw : g.WF) (hs : g.Simple)
    (hne : g.labels ≠ [])
    (hattrs : ∀ a ∈ g.labels, ∃ x, g.attrs? a = some x ∧ x.z.isSome ∧ x.inv.isSome) :
    ∃ c r k, canonicalizeWith g order = .ok (c, r, k) := by
  obtain ⟨p, hp⟩ := partition_total_gen hw .invariantCode (by
    intro b hb
    obtain ⟨x, hx, _, hinv⟩ := hattrs b hb
    obtain ⟨κ, hκ⟩ := Option.isSome_iff_exists.mp hinv
    exact ⟨x, κ, hx, hκ⟩)
  obtain ⟨hpl, hpw, hps, _, _⟩ := partition_spec copySpec mapAttrsSpec g .invariantCode hw hs p hp
  have hd := partition_dense copySpec mapAttrsSpec g .invariantCode hw hs hne p hp
  obtain ⟨r, n, hr, _⟩ := refinePartitions_ok copySpec mapAttrsSpec p hpw hps hd (by rw [hpl]; exact hne)
  unfold canonicalizeWith
  simp only [hp, hr, bind, Except.bind, pure, Except.pure]
  exact ⟨_, _, _, rfl⟩

/-- `serialize_molecule` returns on every well-formed non-empty graph whose atoms carry a partition class
and an atomic number -/
theorem serialize_total (c : Graph) (hw : c.WF) (hs : c.Simple) (hne : c.labels ≠ [])
    (hattrs : ∀ a ∈ c.labels, ∃ x, c.attrs? a = some x ∧ x.z.isSome ∧ x.part.isSome) :
    ∃ s p, serializeMolecule c = .ok (s, p) := by
  -- the guard of `_labels_by_partition`
  have hguard : c.nodes.any (·.attrs.part.isNone) = false := by
    cases hb : c.nodes.any (·.attrs.part.isNone) with
    | false => rfl
    | true =>
      exfalso
      obtain ⟨n, hn, hnone⟩ := List.any_eq_true.mp hb
      have hid : n.id ∈ c.labels := List.mem_map_of_mem (f := (·.id)) hn
      obtain ⟨x, hx, _, hpart⟩ := hattrs n.id hid
      rw [attrs?_of_mem hw.nodup hn] at hx
      injection hx with hx
      subst hx
      cases hq : n.attrs.part with
      | none => rw [hq] at hpart; cases hpart
      | some q => rw [hq] at hnone; cases hnone
  -- the BFS relabelling
  obtain ⟨fl, hfl, hk, hv, _⟩ := finalLabels_ok _ (view_wf c hw)
  have hk' : (fl.map (·.1)).Perm c.resetExplored.labels := hk
  have hv' : (fl.map (·.2)).Perm c.resetExplored.labels := hv
  have rw1 := reset_wf hw
  have hinj : ∀ a ∈ c.resetExplored.labels, ∀ b ∈ c.resetExplored.labels,
      Graph.mapGet fl a = Graph.mapGet fl b → a = b := fun a ha b hb hab =>
    mapGet_inj (hk'.nodup_iff.2 rw1.nodup) (hv'.nodup_iff.2 rw1.nodup)
      (hk'.mem_iff.2 ha) (hk'.mem_iff.2 hb) hab
  obtain ⟨rel, w1, _, hl1⟩ := Graph.relabelCopy_spec _ fl rw1 (reset_simple hs) hinj
  -- the sort by atomic number
  have hne1 : (c.resetExplored.relabelCopy fl).labels ≠ [] := by
    rw [hl1, reset_labels]
    cases hl : c.labels with
    | nil => exact absurd hl hne
    | cons a t => simp
  obtain ⟨m, hm⟩ := sortBy_total w1 .atomicNumber hne1 (by
    intro b hb
    rw [hl1] at hb
    obtain ⟨a, ha, rfl⟩ := List.mem_map.mp hb
    have hra := rel.attrs a ha
    rw [reset_labels] at ha
    obtain ⟨x, hx, hz, _⟩ := hattrs a ha
    obtain ⟨z, hz⟩ := Option.isSome_iff_exists.mp hz
    rw [reset_attrs?, hx] at hra
    exact ⟨resetF a x, [z], hra, by simp [Atom.key, resetF, hz]⟩)
  rw [serialize_unfold, assign_unfold, hguard]
  simp only [Bool.false_eq_true, if_false, hfl, Except.bind, hm]
  exact ⟨_, _, rfl⟩

/-- **The whole pipeline returns a string.** -/
theorem pipeline_total (order : Graph → List Nat) (hperm : ∀ r : Graph, r.WF → (order r).Perm r.labels)
    (g : Graph) (hw : g.WF) (hs : g.Simple) (hne : g.labels ≠ [])
    (hattrs : ∀ a ∈ g.labels, ∃ x, g.attrs? a = some x ∧ x.z.isSome ∧ x.inv.isSome) :
    ∃ s, tucanOf order g = .ok s := by
  obtain ⟨c, r, k, h⟩ := canonicalize_total order g hw hs hne hattrs
  obtain ⟨p, hp, hr, hc⟩ := canonicalize_unfold h
  obtain ⟨hpl, hpw, hps, _, _⟩ := partition_spec copySpec mapAttrsSpec g .invariantCode hw hs p hp
  have hd := partition_dense copySpec mapAttrsSpec g .invariantCode hw hs hne p hp
  unfold refinePartitions at hr
  obtain ⟨_, hdr, hrw, hrs, _, _⟩ := refineLoop_equitable copySpec mapAttrsSpec _ p 0 r k hpw hps hd hr
  obtain ⟨_, _, hrl, _, _, hra, _⟩ := refined_facts hw hs h
  have hord := hperm r hrw
  have hnd : (order r).Nodup := hord.nodup_iff.mpr hrw.nodup
  have hinj : ∀ a ∈ r.labels, ∀ b ∈ r.labels,
      Graph.mapGet (order r).zipIdx a = Graph.mapGet (order r).zipIdx b → a = b :=
    fun a ha b hb => mapGet_zipIdx_inj hnd a (hord.mem_iff.mpr ha) b (hord.mem_iff.mpr hb)
  obtain ⟨rel, cw, cs, cl⟩ := Graph.relabelCopy_spec r (order r).zipIdx hrw hrs hinj
  rw [← hc] at rel cw cs cl
  have hcne : c.labels ≠ [] := by
    rw [cl, hrl]
    cases hl : g.labels with
    | nil => exact absurd hl hne
    | cons a t => simp
  obtain ⟨s, q, hser⟩ := serialize_total c cw cs hcne (by
    intro b hb
    rw [cl] at hb
    obtain ⟨a, ha, rfl⟩ := List.mem_map.mp hb
    have hca := rel.attrs a ha
    have hpa := hdr.1 a ha
    rw [hrl] at ha
    obtain ⟨x, q, hx, hrx⟩ := hra a ha
    obtain ⟨y, hy, hz, _⟩ := hattrs a ha
    rw [hx] at hy
    injection hy with hy
    subst hy
    rw [hrx] at hca
    refine ⟨_, hca, hz, ?_⟩
    simpa [partOf?, hrx] using hpa)
  unfold tucanOf
  simp only [h, hser, bind, Except.bind, pure, Except.pure]
  exact ⟨_, rfl⟩

end Tucan
