import TucanProofs.Lemmas.Wrap
/-!
# Continuation lines split at *any* positions

The CTfile format allows a logical `M  V30 ` line to be continued over several physical lines at any
split points (inside a token, directly after a minus sign, before or after a blank).  Whatever the
split, the reader's splicing restores the logical line.
-/
namespace Tucan

/-- physical lines of a logical line `parts.flatten ++ last` split after each element of `parts` -/
def physicalLines (parts : List Str) (last : Str) : List Str :=
  parts.map (fun p => v30Prefix ++ p ++ ['-']) ++ [v30Prefix ++ last]

theorem splice_any_split_aux : ∀ (parts : List Str) (acc last : Str) (rest : List Str),
    endsWithChar (v30Prefix ++ acc ++ parts.flatten ++ last) '-' = false →
    concatLinesWithDash ((match parts with
        | [] => [v30Prefix ++ acc ++ last]
        | p :: ps => (v30Prefix ++ acc ++ p ++ ['-']) :: physicalLines ps last) ++ rest)
      = expectedSplice (v30Prefix ++ acc ++ parts.flatten ++ last) rest
  | [], acc, last, rest, h => by
    simp only [List.flatten_nil, List.append_nil] at h ⊢
    cases rest with
    | nil => simp [concatLinesWithDash, expectedSplice]
    | cons n r =>
      have h' : endsWithChar (v30Prefix ++ (acc ++ last)) '-' = false := by simpa [List.append_assoc] using h
      simp [concatLinesWithDash, expectedSplice, h', List.append_assoc]
  | p :: ps, acc, last, rest, h => by
    have ih := splice_any_split_aux ps (acc ++ p) last rest (by simpa [List.append_assoc] using h)
    have e1 : startsWith (v30Prefix ++ (acc ++ (p ++ ['-']))) v30Prefix = true := v30Prefix_isPrefixOf _
    have e2 : endsWithChar (v30Prefix ++ (acc ++ (p ++ ['-']))) '-' = true := by
      have := endsWithChar_append_dash (v30Prefix ++ (acc ++ p)); simpa [List.append_assoc] using this
    have e3 : (v30Prefix ++ (acc ++ (p ++ ['-']))).dropLast = v30Prefix ++ (acc ++ p) := by
      have : v30Prefix ++ (acc ++ (p ++ ['-'])) = (v30Prefix ++ (acc ++ p)) ++ ['-'] := by simp
      rw [this, List.dropLast_concat]
    cases ps with
    | nil =>
      simp only [physicalLines, List.map_nil, List.nil_append, List.cons_append, List.append_assoc,
        concatLinesWithDash, e1, e2, Bool.and_self, if_true, v30Prefix_isPrefixOf, e3, drop_v30Prefix]
      simpa [List.append_assoc] using ih
    | cons q qs =>
      simp only [physicalLines, List.map_cons, List.cons_append, List.append_assoc,
        concatLinesWithDash, e1, e2, Bool.and_self, if_true, v30Prefix_isPrefixOf, e3, drop_v30Prefix]
      simpa [physicalLines, List.append_assoc] using ih

/-- **Splicing inverts splitting at any positions.** -/
theorem splice_any_split (parts : List Str) (last : Str) (rest : List Str)
    (h : endsWithChar (v30Prefix ++ parts.flatten ++ last) '-' = false) :
    concatLinesWithDash (physicalLines parts last ++ rest) = expectedSplice (v30Prefix ++ parts.flatten ++ last) rest := by
  have := splice_any_split_aux parts [] last rest (by simpa using h)
  cases parts with
  | nil => simpa [physicalLines] using this
  | cons p ps => simpa [physicalLines] using this

end Tucan
