import TucanProofs.Lemmas.Sentence
import TucanProofs.Lemmas.ParserOutput
import TucanProofs.Lemmas.ParserDenotation
/-!
# Exactly which strings `graph_from_tucan` accepts

A string is accepted if and only if it is a sentence of the grammar (lexically and syntactically) and its
syntax tree is *valid*: every bond index and every attribute index refers to an existing atom (an index is
at most the number of atoms the formula states), no bond joins an atom to itself, no attribute key is set
twice on one atom (within one block or across blocks), and no integer literal exceeds CPython's conversion
limit of 4300 digits (the one place where the interpreter, not the grammar, draws a line).
-/
namespace Tucan

/-- the value of an integer literal of the grammar (a digit string) -/
def litVal (t : Str) : Nat := natOfDigits t

/-- the number of atoms the formula states: the sum of the counts, a missing count being 1 -/
def Ast.atomCount (ast : Ast) : Nat :=
  (ast.formula.map fun p => match p.2 with | none => 1 | some c => litVal c).sum

/-- every integer literal of the tree: counts, bond indices, attribute indices and values -/
def Ast.literals (ast : Ast) : List Str :=
  ast.formula.filterMap (·.2) ++ ast.tuples.flatMap (fun p => [p.1, p.2]) ++
    ast.attrs.flatMap (fun b => b.1 :: b.2.map (·.2))

/-- the (atom index, attribute key) pairs the attribute blocks set, in order -/
def Ast.settings (ast : Ast) : List (Nat × Str) :=
  ast.attrs.flatMap fun b => b.2.map fun kv => (litVal b.1, kv.1)

structure Ast.Valid (ast : Ast) : Prop where
  /-- no literal is longer than CPython's `int()` accepts -/
  lits : ∀ t ∈ ast.literals, t.length ≤ intMaxStrDigits
  /-- bond indices refer to existing atoms, and no bond joins an atom to itself -/
  tuples : ∀ p ∈ ast.tuples, litVal p.1 ≤ ast.atomCount ∧ litVal p.2 ≤ ast.atomCount ∧ litVal p.1 ≠ litVal p.2
  /-- attribute indices refer to existing atoms -/
  attrIdx : ∀ b ∈ ast.attrs, litVal b.1 ≤ ast.atomCount
  /-- no attribute is set twice on one atom -/
  once : ast.settings.Nodup

end Tucan

namespace Tucan.Acc
open Tucan RejectKind POut

/-! ## integer literals of the grammar -/

/-- a digit string that starts with `1`..`9` -/
def Lit (t : Str) : Prop := PosText t ∧ ∀ c ∈ t, isDigit c = true

theorem Lit.ne_nil {t : Str} (h : Lit t) : t ≠ [] := by
  obtain ⟨⟨c, r, rfl, _, _⟩, _⟩ := h
  exact List.cons_ne_nil _ _

theorem pyInt_long (ds : Str) (hne : ds ≠ []) (h : ∀ c ∈ ds, isDigit c = true)
    (hlen : ¬ ds.length ≤ intMaxStrDigits) : pyInt ds = .error .valueError := by
  have hstrip : numText ds = ds :=
    LineM.numText_of_all ds (fun c hc => LineM.isDigit_ascii (h c hc))
      (fun c hc => LineM.isDigit_not_cspace (h c hc))
  have hmatch : pyInt.match_1 (fun _ => Bool × List Char) ds
      (fun r => (true, r)) (fun r => (false, r)) (fun r => (false, r)) = (false, ds) := by
    split
    · exact absurd (h '-' (by simp)) (by decide)
    · exact absurd (h '+' (by simp)) (by decide)
    · rfl
  unfold pyInt
  simp only [hstrip, hmatch, LineM.digitsWithUnderscores_digits ds hne h]
  rw [if_pos (by omega)]

theorem listenerInt_short {t : Str} (h : Lit t) (hl : t.length ≤ intMaxStrDigits) :
    listenerInt t = .ok (litVal t : Int) := by
  unfold listenerInt
  rw [LineM.pyInt_digits t h.ne_nil h.2 hl]
  rfl

theorem listenerInt_long {t : Str} (h : Lit t) (hl : ¬ t.length ≤ intMaxStrDigits) :
    listenerInt t = .error .tucanParser := by
  unfold listenerInt
  rw [pyInt_long t h.ne_nil h.2 hl]

theorem listenerInt_ok_short {t : Str} (h : Lit t) {i : Int} (hi : listenerInt t = .ok i) :
    t.length ≤ intMaxStrDigits := by
  by_cases hl : t.length ≤ intMaxStrDigits
  · exact hl
  · rw [listenerInt_long h hl] at hi
    cases hi

theorem litVal_pos {t : Str} (h : Lit t) : 1 ≤ litVal t := by
  obtain ⟨⟨c, r, rfl, h1, h9⟩, _⟩ := h
  obtain ⟨_, _, _, _, hv⟩ := char_facts h1 h9
  have := foldl_digits_ge r (0 * 10 + digitVal c)
  simp only [litVal, natOfDigits, List.foldl_cons]
  omega

/-! ## what the lexer emits -/

def LitTok : Tok → Prop
  | .lit _ => True
  | .big ds => Lit ds

theorem take_takeWhile_length {α} (p : α → Bool) : ∀ l : List α,
    l.take (l.takeWhile p).length = l.takeWhile p := by
  intro l
  induction l with
  | nil => rfl
  | cons a l ih =>
    by_cases ha : p a = true
    · simp [ha, ih]
    · simp [ha]

theorem mem_takeWhile {α} (p : α → Bool) : ∀ (l : List α) (x : α), x ∈ l.takeWhile p → p x = true := by
  intro l
  induction l with
  | nil => intro x hx; cases hx
  | cons a l ih =>
    intro x hx
    by_cases ha : p a = true
    · rw [List.takeWhile_cons_of_pos ha] at hx
      rcases List.mem_cons.1 hx with rfl | hx
      · exact ha
      · exact ih x hx
    · rw [List.takeWhile_cons_of_neg ha] at hx
      cases hx

theorem bigNumberLen_lit {s : Str} (h : 0 < bigNumberLen s) : Lit (s.take (bigNumberLen s)) := by
  refine ⟨bigNumberLen_pos h, ?_⟩
  unfold bigNumberLen at h ⊢
  split at h
  · next c r =>
    split at h
    · next hc =>
      simp only at h
      split at h
      · next hk =>
        simp only [hc, hk, if_true, List.take_succ_cons]
        simp only [Bool.and_eq_true, decide_eq_true_eq] at hc
        intro x hx
        rcases List.mem_cons.1 hx with rfl | hx
        · exact (char_facts hc.1 hc.2).2.2.2.1
        · rw [take_takeWhile_length] at hx
          exact mem_takeWhile _ _ _ hx
      · exact absurd h (by decide)
    · exact absurd h (by decide)
  · exact absurd h (by decide)

theorem lexGo_lit (lits : List Str) : ∀ (fuel : Nat) (s : Str) (ts : List Tok),
    lexGo lits fuel s = some ts → ∀ t ∈ ts, LitTok t := by
  intro fuel
  induction fuel with
  | zero =>
    intro s ts h
    cases s with
    | nil => simp [lexGo] at h; subst h; simp
    | cons c r => simp [lexGo] at h
  | succ fuel ih =>
    intro s ts h
    cases s with
    | nil => simp [lexGo] at h; subst h; simp
    | cons c r =>
      simp only [lexGo] at h
      split at h
      · next hb =>
        cases hr : lexGo lits fuel (List.drop (bigNumberLen (c :: r)) (c :: r)) with
        | none => simp [hr] at h
        | some ts' =>
          simp only [hr, Option.map_some, Option.some.injEq] at h
          subst h
          intro t ht
          rcases List.mem_cons.1 ht with rfl | ht
          · exact bigNumberLen_lit (Nat.lt_of_le_of_lt (Nat.zero_le _) hb)
          · exact ih _ _ hr t ht
      · split at h
        · cases hr : lexGo lits fuel (List.drop (longestLiteral lits (c :: r)) (c :: r)) with
          | none => simp [hr] at h
          | some ts' =>
            simp only [hr, Option.map_some, Option.some.injEq] at h
            subst h
            intro t ht
            rcases List.mem_cons.1 ht with rfl | ht
            · trivial
            · exact ih _ _ hr t ht
        · cases h

theorem lex_lit {s : Str} {ts : List Tok} (h : lex s = some ts) : ∀ t ∈ ts, LitTok t :=
  lexGo_lit _ _ _ _ h

theorem gtZero_lit {t : Tok} (hg : LitTok t) (hz : isGtZero t = true) : Lit t.text := by
  cases t with
  | lit s =>
    simp only [isGtZero, digit1to9] at hz
    split at hz
    · next c =>
      simp only [Bool.and_eq_true, decide_eq_true_eq] at hz
      refine ⟨⟨c, [], rfl, hz.1, hz.2⟩, ?_⟩
      intro x hx
      rw [List.mem_singleton.1 hx]
      exact (char_facts hz.1 hz.2).2.2.2.1
    · cases hz
  | big ds => exact hg

theorem gtOne_gtZero {t : Tok} (h : isGtOne t = true) : isGtZero t = true := by
  cases t with
  | lit s =>
    simp only [isGtOne, Bool.and_eq_true] at h
    exact h.1
  | big ds => rfl

/-! ## the shape of a sentence's syntax tree -/

/-- symbols are in the element table, counts are literals -/
def FormulaOk (items : List (Str × Option Str)) : Prop :=
  ∀ p ∈ items, (elementZ p.1).isSome ∧ ∀ c, p.2 = some c → Lit c

def TuplesOk (tu : List (Str × Str)) : Prop := ∀ p ∈ tu, Lit p.1 ∧ Lit p.2

def PropsOk (ps : List (Str × Str)) : Prop := ∀ q ∈ ps, KeyText q.1 ∧ Lit q.2

def AttrsOk (ats : List (Str × List (Str × Str))) : Prop :=
  ∀ b ∈ ats, Lit b.1 ∧ b.2 ≠ [] ∧ PropsOk b.2

theorem optElems_ok {order : List Str} {ts : List Tok} {items : List (Str × Option Str)}
    (h : OptElems order ts items) : (∀ t ∈ ts, LitTok t) →
    ∀ p ∈ items, p.1 ∈ order ∧ ∀ c, p.2 = some c → Lit c := by
  induction h with
  | done order => intro _ p hp; cases hp
  | @skip e es ts items _ ih =>
    intro hg p hp
    exact ⟨List.mem_cons_of_mem _ (ih hg p hp).1, (ih hg p hp).2⟩
  | @plain e es ts items _ ih =>
    intro hg p hp
    rcases List.mem_cons.1 hp with rfl | hp
    · exact ⟨List.mem_cons_self, fun c hc => by cases hc⟩
    · have := ih (fun t ht => hg t (List.mem_cons_of_mem _ ht)) p hp
      exact ⟨List.mem_cons_of_mem _ this.1, this.2⟩
  | @counted e es c ts items hc _ ih =>
    intro hg p hp
    rcases List.mem_cons.1 hp with rfl | hp
    · refine ⟨List.mem_cons_self, fun c' hc' => ?_⟩
      cases hc'
      exact gtZero_lit (hg c (by simp)) (gtOne_gtZero hc)
    · have := ih (fun t ht => hg t (by simp [ht])) p hp
      exact ⟨List.mem_cons_of_mem _ this.1, this.2⟩

theorem order_elementZ {e : Str} (h : e ∈ withCarbonOrder ++ withoutCarbonOrder) :
    (elementZ e).isSome := List.all_eq_true.1 elementZ_order e h

theorem sumFormula_ok {ts : List Tok} {items : List (Str × Option Str)} (h : SumFormula ts items)
    (hg : ∀ t ∈ ts, LitTok t) : FormulaOk items := by
  cases h with
  | @withCarbon c0 es ts items hw ho =>
    intro p hp
    rcases List.mem_cons.1 hp with rfl | hp
    · exact ⟨order_elementZ (List.mem_append_left _ (hw ▸ List.mem_cons_self)), fun c hc => by cases hc⟩
    · have := optElems_ok ho (fun t ht => hg t (List.mem_cons_of_mem _ ht)) p hp
      exact ⟨order_elementZ (List.mem_append_left _ (hw ▸ List.mem_cons_of_mem _ this.1)), this.2⟩
  | @withCarbonCounted c0 es c ts items hw hc ho =>
    intro p hp
    rcases List.mem_cons.1 hp with rfl | hp
    · refine ⟨order_elementZ (List.mem_append_left _ (hw ▸ List.mem_cons_self)), fun c' hc' => ?_⟩
      cases hc'
      exact gtZero_lit (hg c (by simp)) (gtOne_gtZero hc)
    · have := optElems_ok ho (fun t ht => hg t (by simp [ht])) p hp
      exact ⟨order_elementZ (List.mem_append_left _ (hw ▸ List.mem_cons_of_mem _ this.1)), this.2⟩
  | withoutCarbon ho =>
    intro p hp
    have := optElems_ok ho hg p hp
    exact ⟨order_elementZ (List.mem_append_right _ this.1), this.2⟩

theorem tuples_ok {ts : List Tok} {r : List (Str × Str)} (h : Tuples ts r) :
    (∀ t ∈ ts, LitTok t) → TuplesOk r := by
  induction h with
  | nil => intro _ p hp; cases hp
  | @cons a b ts r ha hb _ ih =>
    intro hg p hp
    rcases List.mem_cons.1 hp with rfl | hp
    · exact ⟨gtZero_lit (hg a (by simp)) ha, gtZero_lit (hg b (by simp)) hb⟩
    · exact ih (fun t ht => hg t (by simp [ht])) p hp

theorem props_ok {ts : List Tok} {r : List (Str × Str)} (h : Props ts r) :
    (∀ t ∈ ts, LitTok t) → r ≠ [] ∧ PropsOk r := by
  induction h with
  | @one k v hk hv =>
    intro hg
    refine ⟨List.cons_ne_nil _ _, ?_⟩
    intro q hq
    rw [List.mem_singleton.1 hq]
    exact ⟨isKey_text hk, gtZero_lit (hg v (by simp)) hv⟩
  | @more k v ts r hk hv _ ih =>
    intro hg
    refine ⟨List.cons_ne_nil _ _, ?_⟩
    intro q hq
    rcases List.mem_cons.1 hq with rfl | hq
    · exact ⟨isKey_text hk, gtZero_lit (hg v (by simp)) hv⟩
    · exact (ih (fun t ht => hg t (by simp [ht]))).2 q hq

theorem attrs_ok {ts : List Tok} {r : List (Str × List (Str × Str))} (h : Attrs ts r) :
    (∀ t ∈ ts, LitTok t) → AttrsOk r := by
  induction h with
  | nil => intro _ p hp; cases hp
  | @cons i ps pr ts r hi hp _ ih =>
    intro hg b hb
    rcases List.mem_cons.1 hb with rfl | hb
    · have := props_ok hp (fun t ht => hg t (by simp [ht]))
      exact ⟨gtZero_lit (hg i (by simp)) hi, this.1, this.2⟩
    · exact ih (fun t ht => hg t (by simp [ht])) b hb

theorem sentence_ok {ts : List Tok} {ast : Ast} (h : Sentence ts ast) (hg : ∀ t ∈ ts, LitTok t) :
    FormulaOk ast.formula ∧ TuplesOk ast.tuples ∧ AttrsOk ast.attrs := by
  cases h with
  | @plain f items tu tups hF hT =>
    refine ⟨sumFormula_ok hF (fun t ht => hg t (by simp [ht])),
      tuples_ok hT (fun t ht => hg t (by simp [ht])), fun b hb => by cases hb⟩
  | @withAttrs f items tu tups ta ats hF hT hA =>
    refine ⟨sumFormula_ok hF (fun t ht => hg t (by simp [ht])),
      tuples_ok hT (fun t ht => hg t (by simp [ht])), attrs_ok hA (fun t ht => hg t (by simp [ht]))⟩

/-! ## the formula and tuple listeners -/

theorem foldlM_app {α β} (f : List β → α → PyM (List β)) (ok : α → Prop) (g : α → List β) (Q : α → Prop)
    (hf : ∀ a, Q a → ∀ acc, (ok a → f acc a = .ok (acc ++ g a)) ∧ (∀ r, f acc a = .ok r → ok a)) :
    ∀ (l : List α), (∀ a ∈ l, Q a) → ∀ acc,
      ((∀ a ∈ l, ok a) → l.foldlM f acc = .ok (acc ++ l.flatMap g)) ∧
      (∀ r, l.foldlM f acc = .ok r → ∀ a ∈ l, ok a) := by
  intro l
  induction l with
  | nil =>
    intro _ acc
    refine ⟨fun _ => by simp [pure, Except.pure], fun _ _ a ha => by cases ha⟩
  | cons a l ih =>
    intro hl acc
    have hQ := hf a (hl a List.mem_cons_self) acc
    have ih' := ih (fun x hx => hl x (List.mem_cons_of_mem _ hx))
    constructor
    · intro hok
      rw [List.foldlM_cons, hQ.1 (hok a List.mem_cons_self)]
      show l.foldlM f (acc ++ g a) = _
      rw [(ih' (acc ++ g a)).1 (fun x hx => hok x (List.mem_cons_of_mem _ hx))]
      simp
    · intro r hr
      rw [List.foldlM_cons] at hr
      obtain ⟨b, h1, h2⟩ := bind_ok hr
      have hoka := hQ.2 b h1
      rw [hQ.1 hoka] at h1
      cases h1
      intro x hx
      rcases List.mem_cons.1 hx with rfl | hx
      · exact hoka
      · exact (ih' _).2 r h2 x hx

/-- the number a formula item states -/
def itemCount (p : Str × Option Str) : Nat := match p.2 with | none => 1 | some c => litVal c

/-- the atoms a formula item stands for -/
def expand (p : Str × Option Str) : List Atom :=
  match elementZ p.1 with
  | some z => List.replicate (itemCount p) { sym := some p.1, z := some (z : Int), part := some 0 }
  | none => []

def itemShort (p : Str × Option Str) : Prop := ∀ c, p.2 = some c → c.length ≤ intMaxStrDigits

theorem listenFormula_char {f : List (Str × Option Str)} (hf : FormulaOk f) :
    ((∀ p ∈ f, itemShort p) → listenFormula f = .ok (f.flatMap expand)) ∧
    (∀ r, listenFormula f = .ok r → ∀ p ∈ f, itemShort p) := by
  unfold listenFormula
  rw [show f.flatMap expand = [] ++ f.flatMap expand from rfl]
  refine foldlM_app _ itemShort expand
    (fun p => (elementZ p.1).isSome ∧ ∀ c, p.2 = some c → Lit c) ?_ f hf []
  rintro ⟨sym, cnt⟩ ⟨hz, hc⟩ acc
  simp only at hz hc
  cases hez : elementZ sym with
  | none => rw [hez] at hz; cases hz
  | some z =>
    cases cnt with
    | none =>
      refine ⟨fun _ => ?_, fun _ _ c hc' => by cases hc'⟩
      simp only [hez, expand, itemCount]
      rfl
    | some c =>
      have hl := hc c rfl
      by_cases hs : c.length ≤ intMaxStrDigits
      · refine ⟨fun _ => ?_, fun _ _ c' hc' => by cases hc'; exact hs⟩
        simp only [hez, expand, itemCount, listenerInt_short hl hs]
        rfl
      · refine ⟨fun h => absurd (h c rfl) hs, fun r hr => ?_⟩
        simp only [listenerInt_long hl hs] at hr
        cases hr

theorem expand_length {p : Str × Option Str} (h : (elementZ p.1).isSome) : (expand p).length = itemCount p := by
  unfold expand
  cases hz : elementZ p.1 with
  | none => rw [hz] at h; cases h
  | some z => simp

theorem flatMap_expand_length : ∀ (f : List (Str × Option Str)), FormulaOk f →
    (f.flatMap expand).length = (f.map itemCount).sum
  | [], _ => rfl
  | p :: r, h => by
    rw [List.flatMap_cons, List.length_append, List.map_cons, List.sum_cons,
      expand_length (h p List.mem_cons_self).1,
      flatMap_expand_length r (fun q hq => h q (List.mem_cons_of_mem _ hq))]

theorem atomCount_eq (ast : Ast) : ast.atomCount = (ast.formula.map itemCount).sum := rfl

theorem flatMap_expand_z (f : List (Str × Option Str)) : ∀ a ∈ f.flatMap expand, a.z.isSome := by
  intro a ha
  obtain ⟨p, _, hp⟩ := List.mem_flatMap.1 ha
  unfold expand at hp
  cases hz : elementZ p.1 with
  | none => rw [hz] at hp; cases hp
  | some z =>
    rw [hz] at hp
    rw [(List.mem_replicate.1 hp).2]
    rfl

def tupleOk (p : Str × Str) : Prop :=
  p.1.length ≤ intMaxStrDigits ∧ p.2.length ≤ intMaxStrDigits ∧ litVal p.1 ≠ litVal p.2

def tupleBond (p : Str × Str) : List (Int × Int) := [((litVal p.1 : Int) - 1, (litVal p.2 : Int) - 1)]

theorem listenTuples_char {tu : List (Str × Str)} (htu : TuplesOk tu) :
    ((∀ p ∈ tu, tupleOk p) → listenTuples tu = .ok (tu.flatMap tupleBond)) ∧
    (∀ r, listenTuples tu = .ok r → ∀ p ∈ tu, tupleOk p) := by
  unfold listenTuples
  rw [show tu.flatMap tupleBond = [] ++ tu.flatMap tupleBond from rfl]
  refine foldlM_app _ tupleOk tupleBond (fun p => Lit p.1 ∧ Lit p.2) ?_ tu htu []
  rintro ⟨a, b⟩ ⟨ha, hb⟩ acc
  simp only at ha hb
  by_cases hsa : a.length ≤ intMaxStrDigits
  · by_cases hsb : b.length ≤ intMaxStrDigits
    · by_cases hne : litVal a = litVal b
      · refine ⟨fun h => absurd hne h.2.2, fun r hr => ?_⟩
        simp only [listenerInt_short ha hsa, listenerInt_short hb hsb, hne] at hr
        simp [bind, Except.bind] at hr
      · have hne' : ((litVal a : Int) == (litVal b : Int)) = false := by
          simp only [beq_eq_false_iff_ne, ne_eq]; omega
        refine ⟨fun _ => ?_, fun _ _ => ⟨hsa, hsb, hne⟩⟩
        simp only [listenerInt_short ha hsa, listenerInt_short hb hsb]
        simp [bind, Except.bind, hne', tupleBond, pure, Except.pure]
    · refine ⟨fun h => absurd h.2.1 hsb, fun r hr => ?_⟩
      simp only [listenerInt_short ha hsa, listenerInt_long hb hsb] at hr
      cases hr
  · refine ⟨fun h => absurd h.1 hsa, fun r hr => ?_⟩
    simp only [listenerInt_long ha hsa] at hr
    cases hr

theorem mem_flatMap_tupleBond {tu : List (Str × Str)} {b : Int × Int} :
    b ∈ tu.flatMap tupleBond ↔ ∃ p ∈ tu, b = ((litVal p.1 : Int) - 1, (litVal p.2 : Int) - 1) := by
  simp [List.mem_flatMap, tupleBond]

/-! ## the attribute listener -/

/-- the attribute blocks as one list of settings `(index text, key, value text)` -/
def flatSettings (ats : List (Str × List (Str × Str))) : List (Str × Str × Str) :=
  ats.flatMap fun b => b.2.map fun kv => (b.1, kv.1, kv.2)

/-- what the listener does with one setting -/
def attrStep (acc : List (Int × Atom)) (x : Str × Str × Str) : PyM (List (Int × Atom)) := do
  let i ← listenerInt x.1
  let value ← listenerInt x.2.2
  let key ← match attrKeyOf x.2.1 with
    | some key => pure key
    | none => .error .keyError
  let cur := (alookup (i - 1) acc).getD {}
  let cur' ← setAttr key value cur
  pure (ainsert (i - 1) cur' acc)

theorem listenAttrs_flat_aux : ∀ (ats : List (Str × List (Str × Str))) (acc : List (Int × Atom)),
    ats.foldlM (fun acc (idx, props) =>
      props.foldlM (fun acc (k, v) => do
        let i ← listenerInt idx
        let value ← listenerInt v
        let key ← match attrKeyOf k with
          | some key => pure key
          | none => .error .keyError
        let cur := (alookup (i - 1) acc).getD {}
        let cur' ← setAttr key value cur
        pure (ainsert (i - 1) cur' acc)) acc) acc = (flatSettings ats).foldlM attrStep acc
  | [], acc => rfl
  | (idx, props) :: r, acc => by
    rw [List.foldlM_cons]
    unfold flatSettings
    rw [List.flatMap_cons, List.foldlM_append, List.foldlM_map]
    congr 1
    funext acc'
    exact listenAttrs_flat_aux r acc'

theorem listenAttrs_flat (ats : List (Str × List (Str × Str))) :
    listenAttrs ats = (flatSettings ats).foldlM attrStep [] := listenAttrs_flat_aux ats []

theorem alookup_ainsert {ν} (i k : Int) (v : ν) : ∀ (l : List (Int × ν)),
    alookup k (ainsert i v l) = if i == k then some v else alookup k l := by
  intro l
  induction l with
  | nil => simp [ainsert, alookup]
  | cons p r ih =>
    obtain ⟨k', v'⟩ := p
    by_cases h1 : k' = i
    · subst h1
      by_cases h2 : k' = k <;> simp [ainsert, alookup, h2]
    · by_cases h2 : i = k
      · subst h2
        simp [ainsert, alookup, h1, ih]
      · simp [ainsert, alookup, h1, h2, ih]

/-- the field of an attribute record that a key names -/
def fieldOf (k : Str) (a : Atom) : Option Int := if k = "mass".toList then a.mass else a.rad

def setField (k : Str) (v : Int) (a : Atom) : Atom :=
  if k = "mass".toList then { a with mass := some v } else { a with rad := some v }

theorem mass_ne_rad : "rad".toList ≠ "mass".toList := by decide

theorem setAttr_key {k : Str} (hk : KeyText k) (v : Int) (a : Atom) :
    ∃ key, attrKeyOf k = some key ∧
      setAttr key v a = if (fieldOf k a).isSome then .error .tucanParser else .ok (setField k v a) := by
  rcases hk with rfl | rfl
  · refine ⟨"mass", attrKeyOf_keys.1, ?_⟩
    simp only [setAttr, fieldOf, setField, beq_self_eq_true, if_true]
    rfl
  · refine ⟨"rad", attrKeyOf_keys.2, ?_⟩
    have : ("rad" == "mass") = false := by decide
    simp only [setAttr, fieldOf, setField, this, Bool.false_eq_true, if_false, beq_self_eq_true, if_true,
      if_neg mass_ne_rad]
    rfl

theorem fieldOf_setField {k k' : Str} (hk : KeyText k) (hk' : KeyText k') (v : Int) (a : Atom) :
    fieldOf k' (setField k v a) = if k' = k then some v else fieldOf k' a := by
  rcases hk with rfl | rfl <;> rcases hk' with rfl | rfl
  · simp [fieldOf, setField]
  · simp [fieldOf, setField]
  · simp [fieldOf, setField]
  · simp [fieldOf, setField]

theorem onlyMassRad_empty : OnlyMassRad {} := ⟨rfl, rfl, rfl, rfl, rfl, rfl, rfl, rfl, rfl, rfl⟩

theorem onlyMassRad_setField {a : Atom} (h : OnlyMassRad a) (k : Str) (v : Int) : OnlyMassRad (setField k v a) := by
  obtain ⟨a1, a2, a3, a4, a5, a6, a7, a8, a9, a10⟩ := h
  unfold setField
  split <;> exact ⟨a1, a2, a3, a4, a5, a6, a7, a8, a9, a10⟩

theorem fieldOf_empty (k : Str) : fieldOf k {} = none := by
  unfold fieldOf
  split <;> rfl

/-- the (atom index, key) pair a setting sets -/
def setKey (x : Str × Str × Str) : Nat × Str := (litVal x.1, x.2.1)

def SettingLit (x : Str × Str × Str) : Prop := Lit x.1 ∧ KeyText x.2.1 ∧ Lit x.2.2

def settingOk (P : List (Nat × Str)) (x : Str × Str × Str) : Prop :=
  x.1.length ≤ intMaxStrDigits ∧ x.2.2.length ≤ intMaxStrDigits ∧ setKey x ∉ P

/-- the record of atom `n` (1-based) -/
def recOf (acc : List (Int × Atom)) (n : Nat) : Atom := (alookup ((n : Int) - 1) acc).getD {}

/-- the dictionary `acc` is what the settings `P` produce -/
structure Inv (acc : List (Int × Atom)) (P : List (Nat × Str)) : Prop where
  nodup : (acc.map (·.1)).Nodup
  recs : ∀ e ∈ acc, OnlyMassRad e.2 ∧ ∃ s ∈ P, e.1 = (s.1 : Int) - 1
  field : ∀ (n : Nat) (k : Str), KeyText k → ((fieldOf k (recOf acc n)).isSome ↔ (n, k) ∈ P)

theorem inv_nil : Inv [] [] :=
  ⟨List.nodup_nil, fun e he => (by cases he), fun n k _ => (by simp [recOf, alookup, fieldOf_empty])⟩

theorem onlyMassRad_recOf {acc : List (Int × Atom)} {P : List (Nat × Str)} (inv : Inv acc P) (n : Nat) :
    OnlyMassRad (recOf acc n) := by
  unfold recOf
  cases hl : alookup ((n : Int) - 1) acc with
  | none => exact onlyMassRad_empty
  | some a => exact (inv.recs _ (alookup_mem hl)).1

theorem attrStep_char {acc : List (Int × Atom)} {P : List (Nat × Str)} {x : Str × Str × Str}
    (inv : Inv acc P) (hx : SettingLit x) :
    (settingOk P x → ∃ acc', attrStep acc x = .ok acc' ∧ Inv acc' (P ++ [setKey x])) ∧
    (∀ acc', attrStep acc x = .ok acc' → settingOk P x) := by
  obtain ⟨idx, k, v⟩ := x
  obtain ⟨hi, hk, hv⟩ := hx
  simp only at hi hk hv
  by_cases hsi : idx.length ≤ intMaxStrDigits
  · by_cases hsv : v.length ≤ intMaxStrDigits
    · obtain ⟨key, hkey, hset⟩ := setAttr_key hk (litVal v) (recOf acc (litVal idx))
      have hstep : attrStep acc (idx, k, v) =
          (setAttr key (litVal v) (recOf acc (litVal idx)) >>= fun cur' =>
            pure (ainsert ((litVal idx : Int) - 1) cur' acc)) := by
        unfold attrStep
        simp only [listenerInt_short hi hsi, listenerInt_short hv hsv, hkey]
        rfl
      rw [hstep, hset]
      by_cases hmem : (litVal idx, k) ∈ P
      · rw [if_pos ((inv.field _ _ hk).2 hmem)]
        exact ⟨fun h => absurd hmem h.2.2, fun _ h => by cases h⟩
      · have hnone : ¬ (fieldOf k (recOf acc (litVal idx))).isSome = true :=
          fun h => hmem ((inv.field _ _ hk).1 h)
        rw [if_neg hnone]
        refine ⟨fun _ => ⟨_, rfl, ?_⟩, fun _ _ => ⟨hsi, hsv, hmem⟩⟩
        refine ⟨nodup_ainsert _ _ _ inv.nodup, ?_, ?_⟩
        · intro e he
          rcases mem_ainsert he with rfl | he
          · exact ⟨onlyMassRad_setField (onlyMassRad_recOf inv _) _ _,
              (litVal idx, k), by simp [setKey], rfl⟩
          · obtain ⟨h1, s, hs, h2⟩ := inv.recs e he
            exact ⟨h1, s, List.mem_append_left _ hs, h2⟩
        · intro n k' hk'
          unfold recOf
          rw [alookup_ainsert]
          by_cases hn : n = litVal idx
          · subst hn
            simp only [beq_self_eq_true, if_true, Option.getD_some, fieldOf_setField hk hk']
            by_cases hkk : k' = k
            · subst hkk
              simp [setKey]
            · simp only [List.mem_append, List.mem_singleton, setKey, Prod.mk.injEq, hkk,
                and_false, or_false]
              exact inv.field _ _ hk'
          · have hne : (((litVal idx : Int) - 1) == ((n : Int) - 1)) = false := by
              simp only [beq_eq_false_iff_ne, ne_eq]; omega
            simp only [hne, Bool.false_eq_true, if_false, List.mem_append, List.mem_singleton, setKey,
              Prod.mk.injEq, hn, false_and, or_false]
            exact inv.field _ _ hk'
    · refine ⟨fun h => absurd h.2.1 hsv, fun r hr => ?_⟩
      unfold attrStep at hr
      simp only [listenerInt_short hi hsi, listenerInt_long hv hsv] at hr
      cases hr
  · refine ⟨fun h => absurd h.1 hsi, fun r hr => ?_⟩
    unfold attrStep at hr
    simp only [listenerInt_long hi hsi] at hr
    cases hr

/-- all settings of `L` are acceptable after the settings `P` -/
def AllOk : List (Nat × Str) → List (Str × Str × Str) → Prop
  | _, [] => True
  | P, x :: L => settingOk P x ∧ AllOk (P ++ [setKey x]) L

theorem attrFold_char : ∀ (L : List (Str × Str × Str)) (P : List (Nat × Str)) (acc : List (Int × Atom)),
    Inv acc P → (∀ x ∈ L, SettingLit x) →
    (AllOk P L → ∃ r, L.foldlM attrStep acc = .ok r ∧ Inv r (P ++ L.map setKey)) ∧
    (∀ r, L.foldlM attrStep acc = .ok r → AllOk P L)
  | [], P, acc, inv, _ => by
    refine ⟨fun _ => ⟨acc, rfl, by simpa using inv⟩, fun _ _ => trivial⟩
  | x :: L, P, acc, inv, hL => by
    obtain ⟨s1, s2⟩ := attrStep_char inv (hL x List.mem_cons_self)
    have hL' : ∀ y ∈ L, SettingLit y := fun y hy => hL y (List.mem_cons_of_mem _ hy)
    constructor
    · rintro ⟨hx, hrest⟩
      obtain ⟨acc', h1, inv'⟩ := s1 hx
      obtain ⟨r, h2, invr⟩ := (attrFold_char L _ acc' inv' hL').1 hrest
      refine ⟨r, ?_, ?_⟩
      · rw [List.foldlM_cons, h1]; exact h2
      · rw [List.map_cons, List.append_cons]; exact invr
    · intro r hr
      rw [List.foldlM_cons] at hr
      obtain ⟨acc', h1, h2⟩ := bind_ok hr
      have hx := s2 acc' h1
      obtain ⟨acc'', h1', inv'⟩ := s1 hx
      rw [h1] at h1'
      cases h1'
      exact ⟨hx, (attrFold_char L _ acc' inv' hL').2 r h2⟩

theorem allOk_iff : ∀ (L : List (Str × Str × Str)) (P : List (Nat × Str)),
    AllOk P L ↔ (∀ x ∈ L, x.1.length ≤ intMaxStrDigits ∧ x.2.2.length ≤ intMaxStrDigits) ∧
      (∀ x ∈ L, setKey x ∉ P) ∧ (L.map setKey).Nodup
  | [], P => by simp [AllOk]
  | x :: L, P => by
    simp only [AllOk, allOk_iff L, settingOk, List.mem_cons, forall_eq_or_imp, List.map_cons, List.nodup_cons,
      List.mem_append, List.not_mem_nil, or_false, not_or, List.mem_map, not_exists, not_and]
    constructor
    · rintro ⟨⟨a1, a2, a3⟩, b1, b2, b3⟩
      exact ⟨⟨⟨a1, a2⟩, b1⟩, ⟨a3, fun y hy => (b2 y hy).1⟩, fun y hy => (b2 y hy).2, b3⟩
    · rintro ⟨⟨⟨a1, a2⟩, b1⟩, ⟨a3, b2⟩, c1, c2⟩
      exact ⟨⟨a1, a2, a3⟩, b1, fun y hy => ⟨b2 y hy, c1 y hy⟩, c2⟩

/-! ## assembly -/

theorem settings_eq (ast : Ast) : ast.settings = (flatSettings ast.attrs).map setKey := by
  unfold Ast.settings flatSettings
  rw [List.map_flatMap]
  congr 1
  funext b
  rw [List.map_map]
  rfl

theorem mem_flatSettings {ats : List (Str × List (Str × Str))} {x : Str × Str × Str} :
    x ∈ flatSettings ats ↔ ∃ b ∈ ats, ∃ kv ∈ b.2, x = (b.1, kv.1, kv.2) := by
  unfold flatSettings
  simp only [List.mem_flatMap, List.mem_map]
  constructor
  · rintro ⟨b, hb, kv, hkv, rfl⟩
    exact ⟨b, hb, kv, hkv, rfl⟩
  · rintro ⟨b, hb, kv, hkv, rfl⟩
    exact ⟨b, hb, kv, hkv, rfl⟩

def blockShort (b : Str × List (Str × Str)) : Prop :=
  b.1.length ≤ intMaxStrDigits ∧ ∀ kv ∈ b.2, kv.2.length ≤ intMaxStrDigits

theorem flat_short_iff {ats : List (Str × List (Str × Str))} (ha : AttrsOk ats) :
    (∀ x ∈ flatSettings ats, x.1.length ≤ intMaxStrDigits ∧ x.2.2.length ≤ intMaxStrDigits) ↔
      ∀ b ∈ ats, blockShort b := by
  constructor
  · intro h b hb
    obtain ⟨_, hne, _⟩ := ha b hb
    obtain ⟨kv0, hkv0⟩ := List.exists_mem_of_ne_nil _ hne
    refine ⟨(h _ (mem_flatSettings.2 ⟨b, hb, kv0, hkv0, rfl⟩)).1, fun kv hkv => ?_⟩
    exact (h _ (mem_flatSettings.2 ⟨b, hb, kv, hkv, rfl⟩)).2
  · intro h x hx
    obtain ⟨b, hb, kv, hkv, rfl⟩ := mem_flatSettings.1 hx
    exact ⟨(h b hb).1, (h b hb).2 kv hkv⟩

theorem flat_lit {ats : List (Str × List (Str × Str))} (ha : AttrsOk ats) :
    ∀ x ∈ flatSettings ats, SettingLit x := by
  intro x hx
  obtain ⟨b, hb, kv, hkv, rfl⟩ := mem_flatSettings.1 hx
  obtain ⟨h1, _, h3⟩ := ha b hb
  exact ⟨h1, (h3 kv hkv).1, (h3 kv hkv).2⟩

theorem lits_iff (ast : Ast) :
    (∀ t ∈ ast.literals, t.length ≤ intMaxStrDigits) ↔
      (∀ p ∈ ast.formula, itemShort p) ∧
      (∀ p ∈ ast.tuples, p.1.length ≤ intMaxStrDigits ∧ p.2.length ≤ intMaxStrDigits) ∧
      (∀ b ∈ ast.attrs, blockShort b) := by
  unfold Ast.literals
  constructor
  · intro h
    refine ⟨?_, ?_, ?_⟩
    · intro p hp c hc
      refine h c (List.mem_append_left _ (List.mem_append_left _ ?_))
      exact List.mem_filterMap.2 ⟨p, hp, hc⟩
    · intro p hp
      have hm : ∀ t ∈ [p.1, p.2], t ∈ ast.formula.filterMap (·.2) ++ ast.tuples.flatMap (fun p => [p.1, p.2]) ++
          ast.attrs.flatMap (fun b => b.1 :: b.2.map (·.2)) := fun t ht =>
        List.mem_append_left _ (List.mem_append_right _ (List.mem_flatMap.2 ⟨p, hp, ht⟩))
      exact ⟨h _ (hm _ (by simp)), h _ (hm _ (by simp))⟩
    · intro b hb
      have hm : ∀ t ∈ b.1 :: b.2.map (·.2), t ∈ ast.formula.filterMap (·.2) ++
          ast.tuples.flatMap (fun p => [p.1, p.2]) ++ ast.attrs.flatMap (fun b => b.1 :: b.2.map (·.2)) :=
        fun t ht => List.mem_append_right _ (List.mem_flatMap.2 ⟨b, hb, ht⟩)
      refine ⟨h _ (hm _ List.mem_cons_self), fun kv hkv => ?_⟩
      exact h _ (hm _ (List.mem_cons_of_mem _ (List.mem_map.2 ⟨kv, hkv, rfl⟩)))
  · rintro ⟨h1, h2, h3⟩ t ht
    rcases List.mem_append.1 ht with ht | ht
    · rcases List.mem_append.1 ht with ht | ht
      · obtain ⟨p, hp, hc⟩ := List.mem_filterMap.1 ht
        exact h1 p hp t hc
      · obtain ⟨p, hp, ht⟩ := List.mem_flatMap.1 ht
        rcases List.mem_cons.1 ht with rfl | ht
        · exact (h2 p hp).1
        · rw [List.mem_singleton.1 ht]; exact (h2 p hp).2
    · obtain ⟨b, hb, ht⟩ := List.mem_flatMap.1 ht
      rcases List.mem_cons.1 ht with rfl | ht
      · exact (h3 b hb).1
      · obtain ⟨kv, hkv, rfl⟩ := List.mem_map.1 ht
        exact (h3 b hb).2 kv hkv

/-- the attribute listener, in terms of the settings -/
theorem listenAttrs_char {ast : Ast} (ha : AttrsOk ast.attrs) :
    (((∀ b ∈ ast.attrs, blockShort b) ∧ ast.settings.Nodup) →
      ∃ r, listenAttrs ast.attrs = .ok r ∧ Inv r ast.settings) ∧
    (∀ r, listenAttrs ast.attrs = .ok r → (∀ b ∈ ast.attrs, blockShort b) ∧ ast.settings.Nodup) := by
  have key := attrFold_char (flatSettings ast.attrs) [] [] inv_nil (flat_lit ha)
  rw [allOk_iff, flat_short_iff ha, List.nil_append, ← settings_eq, ← listenAttrs_flat] at key
  constructor
  · rintro ⟨h1, h2⟩
    exact key.1 ⟨h1, fun _ _ h => (by cases h), h2⟩
  · intro r hr
    have := key.2 r hr
    exact ⟨this.1, this.2.2⟩

theorem mem_settings {ast : Ast} {s : Nat × Str} (hs : s ∈ ast.settings) :
    ∃ b ∈ ast.attrs, s.1 = litVal b.1 := by
  unfold Ast.settings at hs
  obtain ⟨b, hb, hs⟩ := List.mem_flatMap.1 hs
  obtain ⟨kv, _, rfl⟩ := List.mem_map.1 hs
  exact ⟨b, hb, rfl⟩

/-- **The listeners succeed with a good state exactly on valid trees.** -/
theorem listeners_char (ast : Ast) (hf : FormulaOk ast.formula) (ht : TuplesOk ast.tuples)
    (ha : AttrsOk ast.attrs) :
    (∃ st : ListenerState, listenFormula ast.formula = .ok st.atoms ∧ listenTuples ast.tuples = .ok st.bonds ∧
      listenAttrs ast.attrs = .ok st.nodeAttrs ∧ GoodState st) ↔ ast.Valid := by
  obtain ⟨f1, f2⟩ := listenFormula_char hf
  obtain ⟨t1, t2⟩ := listenTuples_char ht
  obtain ⟨a1, a2⟩ := listenAttrs_char ha
  have hlen : (ast.formula.flatMap expand).length = ast.atomCount := flatMap_expand_length _ hf
  constructor
  · rintro ⟨⟨atoms, bonds, na⟩, h1, h2, h3, hg⟩
    simp only at h1 h2 h3
    have s1 := f2 _ h1
    have s2 := t2 _ h2
    obtain ⟨s3, s4⟩ := a2 _ h3
    rw [f1 s1] at h1
    rw [t1 s2] at h2
    obtain ⟨r, hr, inv⟩ := a1 ⟨s3, s4⟩
    rw [hr] at h3
    have h3' : r = na := Except.ok.inj h3
    subst h3'
    cases h1; cases h2
    refine ⟨(lits_iff ast).2 ⟨s1, fun p hp => ⟨(s2 p hp).1, (s2 p hp).2.1⟩, s3⟩, ?_, ?_, s4⟩
    · intro p hp
      have := hg.bonds _ (mem_flatMap_tupleBond.2 ⟨p, hp, rfl⟩)
      dsimp only at this
      rw [hlen] at this
      refine ⟨?_, ?_, (s2 p hp).2.2⟩ <;> omega
    · intro b hb
      obtain ⟨_, hne, hprops⟩ := ha b hb
      obtain ⟨kv, hkv⟩ := List.exists_mem_of_ne_nil _ hne
      have hmem : (litVal b.1, kv.1) ∈ ast.settings := by
        unfold Ast.settings
        exact List.mem_flatMap.2 ⟨b, hb, List.mem_map.2 ⟨kv, hkv, rfl⟩⟩
      have hsome := (inv.field _ _ (hprops kv hkv).1).2 hmem
      unfold recOf at hsome
      cases hl : alookup ((litVal b.1 : Int) - 1) r with
      | none =>
        rw [hl, Option.getD_none, fieldOf_empty] at hsome
        cases hsome
      | some a =>
        have := (hg.attrsIdx _ (alookup_mem hl)).2.1
        dsimp only at this
        rw [hlen] at this
        omega
  · intro hv
    obtain ⟨l1, l2, l3⟩ := (lits_iff ast).1 hv.lits
    have h1 := f1 l1
    have h2 := t1 (fun p hp => ⟨(l2 p hp).1, (l2 p hp).2, (hv.tuples p hp).2.2⟩)
    obtain ⟨r, h3, inv⟩ := a1 ⟨l3, hv.once⟩
    have hlen2 : ((ast.formula.map expand).flatten.length) = ast.atomCount := hlen
    refine ⟨⟨ast.formula.flatMap expand, ast.tuples.flatMap tupleBond, r⟩, h1, h2, h3,
      flatMap_expand_z _, ?_, ?_, inv.nodup⟩
    · intro b hb
      obtain ⟨p, hp, rfl⟩ := mem_flatMap_tupleBond.1 hb
      obtain ⟨v1, v2, v3⟩ := hv.tuples p hp
      have p1 := litVal_pos (ht p hp).1
      have p2 := litVal_pos (ht p hp).2
      dsimp only
      first | rw [hlen] | rw [hlen2]
      refine ⟨?_, ?_, ?_, ?_, ?_⟩ <;> omega
    · intro e he
      obtain ⟨o, s, hs, h⟩ := inv.recs e he
      obtain ⟨b, hb, hsb⟩ := mem_settings hs
      have p1 := litVal_pos (ha b hb).1
      have := hv.attrIdx b hb
      dsimp only
      first | rw [hlen] | rw [hlen2]
      refine ⟨?_, ?_, o⟩ <;> omega


end Tucan.Acc

namespace Tucan

/-- **Acceptance, exactly.** -/
theorem graphFromTucan_accepts_iff (s : Str) :
    (∃ g, graphFromTucan s = .ok g) ↔
      ∃ toks ast, lex s = some toks ∧ Sentence toks ast ∧ ast.Valid := by
  constructor
  · rintro ⟨g, hg⟩
    obtain ⟨toks, ast, st, hl, hp, h1, h2, h3, _, hgood⟩ := graphFromTucan_state s g hg
    have hs : Sentence toks ast := (parseTucan_iff toks ast).1 hp
    obtain ⟨o1, o2, o3⟩ := Acc.sentence_ok hs (Acc.lex_lit hl)
    exact ⟨toks, ast, hl, hs, (Acc.listeners_char ast o1 o2 o3).1 ⟨st, h1, h2, h3, hgood⟩⟩
  · rintro ⟨toks, ast, hl, hs, hv⟩
    obtain ⟨o1, o2, o3⟩ := Acc.sentence_ok hs (Acc.lex_lit hl)
    obtain ⟨st, h1, h2, h3, hgood⟩ := (Acc.listeners_char ast o1 o2 o3).2 hv
    obtain ⟨g, hg, _⟩ := toGraph_spec st hgood
    refine ⟨g, ?_⟩
    unfold graphFromTucan
    rw [hl]
    simp only [pure_bind]
    rw [(parseTucan_iff toks ast).2 hs]
    simp only
    rw [h1, h2, h3]
    exact hg

end Tucan
