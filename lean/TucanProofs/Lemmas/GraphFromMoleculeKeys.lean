import TucanProofs.Lemmas.GraphFromMolecule
import TucanProofs.Lemmas.Ranks
/-!
# `graph_from_molecule` with arbitrary distinct atom keys (consecutive renumbering)

The V3000 reader keys atoms by the index written in the file (minus one), which may be sparse, large or in
any order.  `graph_from_molecule` renumbers the atoms consecutively **in listing order**: the atom listed
at position `i` becomes node `i`, and a bond between keys `k`, `l` becomes a bond between their positions.
-/
namespace Tucan

/-- position of a key in the atom dictionary -/
def keyPos (atoms : List (Int × Atom)) (k : Int) : Option Nat := indexOf? k (atoms.map (·.1))

/-- bonds between two different existing keys, no unordered pair twice -/
def GoodKeyBonds (atoms : List (Int × Atom)) (bonds : List ((Int × Int) × Bond)) : Prop :=
  (∀ b ∈ bonds, (keyPos atoms b.1.1).isSome ∧ (keyPos atoms b.1.2).isSome ∧ b.1.1 ≠ b.1.2) ∧
  (bonds.map fun b => if b.1.1 ≤ b.1.2 then (b.1.1, b.1.2) else (b.1.2, b.1.1)).Nodup

namespace GFMK
open Graph

theorem idxOf_of_pos {atoms : List (Int × Atom)} {k : Int} {i : Nat} (h : keyPos atoms k = some i) :
    GFM.idxOf (atoms.map (·.1)) k = i := by
  unfold keyPos at h
  unfold GFM.idxOf
  rw [h]; rfl

theorem pos_lt {atoms : List (Int × Atom)} {k : Int} {i : Nat} (h : keyPos atoms k = some i) :
    ∃ hi : i < atoms.length, (atoms[i]).1 = k := by
  have := indexOf?_get k _ i h
  rw [List.getElem?_map] at this
  by_cases hi : i < atoms.length
  · refine ⟨hi, ?_⟩
    rw [List.getElem?_eq_getElem hi] at this
    simpa using this
  · rw [List.getElem?_eq_none (by omega)] at this
    simp at this

theorem pos_inj {atoms : List (Int × Atom)} {k l : Int} {i : Nat} (h : keyPos atoms k = some i)
    (h' : keyPos atoms l = some i) : k = l := by
  obtain ⟨_, e⟩ := pos_lt h
  obtain ⟨_, e'⟩ := pos_lt h'
  exact e.symm.trans e'

theorem pos_mem {atoms : List (Int × Atom)} {k : Int} {i : Nat} (h : keyPos atoms k = some i) :
    k ∈ atoms.map (·.1) := by
  obtain ⟨hi, e⟩ := pos_lt h
  exact List.mem_map.2 ⟨atoms[i], List.getElem_mem hi, e⟩

theorem pos_getElem {atoms : List (Int × Atom)} (hk : (atoms.map (·.1)).Nodup) (i : Nat)
    (hi : i < atoms.length) : keyPos atoms (atoms[i]).1 = some i := by
  have := indexOf?_getElem (atoms.map (·.1)) i (by simpa using hi) hk
  simpa [keyPos] using this

theorem foldl_conv (p : Int → Nat) (F : Bond → Bond) : ∀ (bonds : List ((Int × Int) × Bond))
    (g : Graph),
    bonds.foldl (fun g b => g.addEdge (p b.1.1) (p b.1.2) (F b.2)) g =
      (bonds.map fun b => (p b.1.1, p b.1.2, F b.2)).foldl
        (fun h (u, v, d) => h.addEdge u v d) g
  | [], _ => rfl
  | b :: r, g => by
    rw [List.foldl_cons, List.map_cons, List.foldl_cons]
    exact foldl_conv p F r _

/-- the bond dictionary as a list of edges between positions -/
def posEdges (ks : List Int) (bonds : List ((Int × Int) × Bond)) : List (Nat × Nat × Bond) :=
  bonds.map fun b => (GFM.idxOf ks b.1.1, GFM.idxOf ks b.1.2, b.2)

theorem core_eq (ks : List Int) (atoms' : List (Int × Atom)) (bonds : List ((Int × Int) × Bond)) :
    GFM.core ks atoms' bonds =
      (posEdges ks bonds).foldl (fun h (u, v, d) => h.addEdge u v d)
        (((posEdges ks bonds).map GFM.blank).foldl (fun h (u, v, d) => h.addEdge u v d)
          ⟨atoms'.map fun p => ⟨GFM.idxOf ks p.1, p.2, []⟩⟩) := by
  have e1 := foldl_conv (GFM.idxOf ks) (fun _ => {}) bonds
    ⟨atoms'.map fun p => ⟨GFM.idxOf ks p.1, p.2, []⟩⟩
  have e2 := foldl_conv (GFM.idxOf ks) id bonds
    (bonds.foldl (fun g b => g.addEdge (GFM.idxOf ks b.1.1) (GFM.idxOf ks b.1.2) {})
      ⟨atoms'.map fun p => ⟨GFM.idxOf ks p.1, p.2, []⟩⟩)
  have e3 : (posEdges ks bonds).map GFM.blank
      = bonds.map fun b => (GFM.idxOf ks b.1.1, GFM.idxOf ks b.1.2, {}) := by
    unfold posEdges; rw [List.map_map]; rfl
  rw [e3, ← e1]
  exact e2

end GFMK

/-- **Consecutive renumbering in listing order.** -/
theorem graphFromMolecule_keys (atoms : List (Int × Atom)) (bonds : List ((Int × Int) × Bond))
    (hk : (atoms.map (·.1)).Nodup) (hb : GoodKeyBonds atoms bonds) (hz : ∀ a ∈ atoms, a.2.z.isSome) :
    ∃ g post, graphFromMolecule atoms bonds = .ok (g, post) ∧
      g.labels = List.range atoms.length ∧ g.WF ∧ g.Simple ∧
      (∀ i (hi : i < atoms.length), ∃ x, addInvariantCode (atoms[i]).2 = .ok x ∧ g.attrs? i = some x) ∧
      (∀ i j d, (j, d) ∈ g.nbrsD i ↔
        ∃ k l, keyPos atoms k = some i ∧ keyPos atoms l = some j ∧
          (((k, l), d) ∈ bonds ∨ ((l, k), d) ∈ bonds)) := by
  obtain ⟨hb1, hb2⟩ := hb
  have hmap := GFM.mapM_ok atoms hz
  have hkeys' : (atoms.map fun p => (p.1, GFM.inv' p.2)).map (·.1) = atoms.map (·.1) := by
    rw [List.map_map]; rfl
  -- positions of the bond endpoints
  have hpos : ∀ b ∈ bonds, ∃ i j, keyPos atoms b.1.1 = some i ∧ keyPos atoms b.1.2 = some j := by
    intro b hb
    obtain ⟨h1, h2, _⟩ := hb1 b hb
    obtain ⟨i, hi⟩ := Option.isSome_iff_exists.1 h1
    obtain ⟨j, hj⟩ := Option.isSome_iff_exists.1 h2
    exact ⟨i, j, hi, hj⟩
  have hall := GFM.allKeys_eq bonds (atoms.map (·.1)) (fun b hb => by
    obtain ⟨i, j, hi, hj⟩ := hpos b hb
    exact ⟨GFMK.pos_mem hi, GFMK.pos_mem hj⟩)
  have heq := GFM.graphFromMolecule_eq atoms _ bonds hmap
  rw [hkeys', hall, GFMK.core_eq] at heq
  have hidxN : ∀ i (hi : i < atoms.length), GFM.idxOf (atoms.map (·.1)) (atoms[i]).1 = i :=
    fun i hi => GFMK.idxOf_of_pos (GFMK.pos_getElem hk i hi)
  -- the graph before the edges
  generalize hg0 : (⟨(atoms.map fun p => (p.1, GFM.inv' p.2)).map fun p =>
    ⟨GFM.idxOf (atoms.map (·.1)) p.1, p.2, []⟩⟩ : Graph) = g0 at heq
  have hl0 : g0.labels = List.range atoms.length := by
    subst hg0
    simp only [Graph.labels, List.map_map]
    apply List.ext_getElem
    · simp
    · intro i h1 h2
      simp only [List.length_map] at h1
      simp only [List.getElem_map, Function.comp, List.getElem_range]
      exact hidxN i h1
  have hnd0 : g0.labels.Nodup := hl0 ▸ List.nodup_range
  have ha0 : ∀ i (hi : i < atoms.length), g0.attrs? i = some (GFM.inv' (atoms[i]).2) := by
    intro i hi
    have hm : (⟨GFM.idxOf (atoms.map (·.1)) (atoms[i]).1, GFM.inv' (atoms[i]).2, []⟩ : Node)
        ∈ g0.nodes := by
      subst hg0
      simp only [List.map_map]
      exact List.mem_map.2 ⟨atoms[i], List.getElem_mem hi, rfl⟩
    have := NxRelabel.attrs?_of_mem hnd0 hm
    simp only [hidxN i hi] at this
    exact this
  have hn0 : ∀ x, g0.nbrsD x = [] := by
    apply NxRelabel.nbrsD_eq_nil_of
    intro m hm
    subst hg0
    obtain ⟨p, -, rfl⟩ := List.mem_map.1 hm
    rfl
  have inv0 : NxE.Inv (List.range atoms.length) g0.attrs? g0 [] :=
    ⟨hl0, fun _ => rfl, fun a w d => by rw [hn0]; simp, fun a => by rw [hn0]; exact List.nodup_nil⟩
  -- the edge list
  have hes : ∀ e ∈ GFMK.posEdges (atoms.map (·.1)) bonds,
      e.1 ∈ List.range atoms.length ∧ e.2.1 ∈ List.range atoms.length ∧ e.1 ≠ e.2.1 := by
    intro e he
    obtain ⟨b, hb, rfl⟩ := List.mem_map.1 he
    obtain ⟨i, j, hi, hj⟩ := hpos b hb
    simp only [GFMK.idxOf_of_pos hi, GFMK.idxOf_of_pos hj]
    refine ⟨List.mem_range.2 (GFMK.pos_lt hi).1, List.mem_range.2 (GFMK.pos_lt hj).1, ?_⟩
    intro hc
    subst hc
    exact (hb1 b hb).2.2 (GFMK.pos_inj hi hj)
  have hnd : ((GFMK.posEdges (atoms.map (·.1)) bonds).map NxE.norm).Nodup := by
    unfold GFMK.posEdges
    rw [List.map_map]
    unfold List.Nodup at hb2 ⊢
    rw [List.pairwise_map] at hb2 ⊢
    refine List.Pairwise.imp_of_mem ?_ hb2
    intro b b' hb hb' hne hc
    apply hne
    obtain ⟨i, j, hi, hj⟩ := hpos b hb
    obtain ⟨i', j', hi', hj'⟩ := hpos b' hb'
    simp only [Function.comp, GFMK.idxOf_of_pos hi, GFMK.idxOf_of_pos hj, GFMK.idxOf_of_pos hi',
      GFMK.idxOf_of_pos hj'] at hc
    rw [NxE.norm_eq_norm_iff] at hc
    have hkeys : (b.1.1 = b'.1.1 ∧ b.1.2 = b'.1.2) ∨ (b.1.1 = b'.1.2 ∧ b.1.2 = b'.1.1) := by
      rcases hc with ⟨h1, h2⟩ | ⟨h1, h2⟩
      · subst h1; subst h2
        exact Or.inl ⟨GFMK.pos_inj hi hi', GFMK.pos_inj hj hj'⟩
      · subst h1; subst h2
        exact Or.inr ⟨GFMK.pos_inj hi hj', GFMK.pos_inj hj hi'⟩
    split <;> split <;> simp only [Prod.mk.injEq] <;> omega
  have hmemE : ∀ i j d, (i, j, d) ∈ GFMK.posEdges (atoms.map (·.1)) bonds ↔
      ∃ k l, keyPos atoms k = some i ∧ keyPos atoms l = some j ∧ ((k, l), d) ∈ bonds := by
    intro i j d
    unfold GFMK.posEdges
    rw [List.mem_map]
    constructor
    · rintro ⟨⟨⟨u, v⟩, d'⟩, hb, he⟩
      obtain ⟨i', j', hi, hj⟩ := hpos _ hb
      simp only at hi hj
      simp only [Prod.mk.injEq, GFMK.idxOf_of_pos hi, GFMK.idxOf_of_pos hj] at he
      obtain ⟨rfl, rfl, rfl⟩ := he
      exact ⟨u, v, hi, hj, hb⟩
    · rintro ⟨k, l, hi, hj, hb⟩
      exact ⟨_, hb, by simp only [GFMK.idxOf_of_pos hi, GFMK.idxOf_of_pos hj]⟩
  have inv2 := GFM.twoPass (GFMK.posEdges (atoms.map (·.1)) bonds) g0 inv0 hes hnd
  generalize (GFMK.posEdges (atoms.map (·.1)) bonds).foldl (fun h (u, v, d) => h.addEdge u v d)
    (((GFMK.posEdges (atoms.map (·.1)) bonds).map GFM.blank).foldl
      (fun h (u, v, d) => h.addEdge u v d) g0) = g2 at heq inv2
  have hnd2 : g2.labels.Nodup := inv2.labels ▸ List.nodup_range
  have hw2 : g2.WF := by
    refine NxE.WF.of_obs hnd2 inv2.keys ?_
    intro a w d he
    have he' := (inv2.nbrs a w d).1 he
    refine ⟨?_, (inv2.nbrs w a d).2 he'.symm⟩
    rw [inv2.labels]
    rcases he' with h | h
    · exact (hes _ h).2.1
    · exact (hes _ h).1
  have hs2 : g2.Simple := by
    refine NxE.Simple.of_obs hnd2 ?_
    intro a w d he
    rcases (inv2.nbrs a w d).1 he with h | h
    · exact fun hc => (hes _ h).2.2 hc.symm
    · exact (hes _ h).2.2
  obtain ⟨rl, hwg, hsg, hlg⟩ := Graph.relabelCopy_spec g2 [] hw2 hs2 (fun a _ b _ h => h)
  have hid : Graph.mapGet [] = id := rfl
  rw [hid] at rl
  rw [hid, List.map_id, inv2.labels] at hlg
  refine ⟨_, _, heq, hlg, hwg, hsg, ?_, ?_⟩
  · intro i hi
    refine ⟨GFM.inv' (atoms[i]).2, GFM.addInvariantCode_ok (hz _ (List.getElem_mem hi)), ?_⟩
    have := rl.attrs i (by rw [inv2.labels]; exact List.mem_range.2 hi)
    rw [id] at this
    rw [this, inv2.attrs, ha0 i hi]
  · intro i j d
    have hfin : ((i, j, d) ∈ GFMK.posEdges (atoms.map (·.1)) bonds ∨
        (j, i, d) ∈ GFMK.posEdges (atoms.map (·.1)) bonds) ↔
        ∃ k l, keyPos atoms k = some i ∧ keyPos atoms l = some j ∧
          (((k, l), d) ∈ bonds ∨ ((l, k), d) ∈ bonds) := by
      rw [hmemE, hmemE]
      constructor
      · rintro (⟨k, l, h1, h2, h3⟩ | ⟨k, l, h1, h2, h3⟩)
        · exact ⟨k, l, h1, h2, Or.inl h3⟩
        · exact ⟨l, k, h2, h1, Or.inr h3⟩
      · rintro ⟨k, l, h1, h2, h3 | h3⟩
        · exact Or.inl ⟨k, l, h1, h2, h3⟩
        · exact Or.inr ⟨l, k, h2, h1, h3⟩
    rw [← hfin, ← inv2.nbrs]
    by_cases hi : i ∈ g2.labels
    · have hp := rl.nbrs i hi
      have : (fun (e : Nat × Bond) => (id e.1, e.2)) = id := rfl
      rw [this, List.map_id, id] at hp
      exact hp.mem_iff
    · have h1 : (g2.relabelCopy []).nbrsD i = [] :=
        NxRelabel.nbrsD_of_not_mem (by rw [hlg, ← inv2.labels]; exact hi)
      rw [h1, NxRelabel.nbrsD_of_not_mem hi]

end Tucan
