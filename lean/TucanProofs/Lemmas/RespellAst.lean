import TucanProofs.Lemmas.AcceptIff
import TucanProofs.Lemmas.Pipeline
/-!
# Respelling, at the level of strings

Two accepted strings whose syntax trees *say the same thing* — the same formula, the same set of bonded pairs
(tuples in any order, endpoints either way round, a tuple any number of times), the same attribute settings
(blocks in any order, split or merged, properties in any order) — parse to the same molecule, atom for atom,
and hence normalize to the same canonical string.  (Renumbering atoms inside an element block is the
state-level theorem `toGraph_respell`, C11_respelling.)
-/
namespace Tucan

/-- the attribute settings of a tree with their values: (atom index, key, value) -/
def Ast.valuedSettings (ast : Ast) : List (Nat × Str × Nat) :=
  ast.attrs.flatMap fun b => b.2.map fun kv => (litVal b.1, kv.1, litVal kv.2)

/-- two syntax trees that say the same thing -/
structure SameMeaning (a b : Ast) : Prop where
  formula : a.formula = b.formula
  bonds : ∀ i j : Nat,
    (∃ p ∈ a.tuples, (litVal p.1 = i ∧ litVal p.2 = j) ∨ (litVal p.1 = j ∧ litVal p.2 = i)) ↔
    (∃ p ∈ b.tuples, (litVal p.1 = i ∧ litVal p.2 = j) ∨ (litVal p.1 = j ∧ litVal p.2 = i))
  settings : ∀ x, x ∈ a.valuedSettings ↔ x ∈ b.valuedSettings


namespace Respell
open Tucan RejectKind POut Tucan.Acc

/-- the (atom index, key, value) triple a setting sets -/
def valKey (x : Str × Str × Str) : Nat × Str × Nat := (litVal x.1, x.2.1, litVal x.2.2)

/-- the dictionary `acc` stores exactly the values the valued settings `Q` state -/
def VInv (acc : List (Int × Atom)) (Q : List (Nat × Str × Nat)) : Prop :=
  ∀ (n : Nat) (k : Str), KeyText k → ∀ v : Int,
    fieldOf k (recOf acc n) = some v ↔ ∃ w : Nat, (w : Int) = v ∧ (n, k, w) ∈ Q

theorem vinv_nil : VInv [] [] := by
  intro n k _ v
  simp [recOf, alookup, fieldOf_empty]

theorem attrStep_val {acc : List (Int × Atom)} {P : List (Nat × Str)} {Q : List (Nat × Str × Nat)}
    {x : Str × Str × Str} {acc' : List (Int × Atom)}
    (inv : Inv acc P) (vinv : VInv acc Q) (hx : SettingLit x) (h : attrStep acc x = .ok acc') :
    VInv acc' (Q ++ [valKey x]) := by
  obtain ⟨hsi, hsv, hmem⟩ := (attrStep_char inv hx).2 acc' h
  obtain ⟨idx, k, v⟩ := x
  obtain ⟨hi, hk, hv⟩ := hx
  simp only at hi hk hv hsi hsv
  simp only [setKey] at hmem
  obtain ⟨key, hkey, hset⟩ := setAttr_key hk (litVal v) (recOf acc (litVal idx))
  have hstep : attrStep acc (idx, k, v) =
      (setAttr key (litVal v) (recOf acc (litVal idx)) >>= fun cur' =>
        pure (ainsert ((litVal idx : Int) - 1) cur' acc)) := by
    unfold attrStep
    simp only [listenerInt_short hi hsi, listenerInt_short hv hsv, hkey]
    rfl
  have hnone : ¬ (fieldOf k (recOf acc (litVal idx))).isSome = true :=
    fun h => hmem ((inv.field _ _ hk).1 h)
  rw [hstep, hset, if_neg hnone] at h
  have hacc : acc' = ainsert ((litVal idx : Int) - 1) (setField k (litVal v) (recOf acc (litVal idx))) acc :=
    (Except.ok.inj h).symm
  subst hacc
  have hnone' : fieldOf k (recOf acc (litVal idx)) = none := by
    cases hf : fieldOf k (recOf acc (litVal idx)) with
    | none => rfl
    | some w => rw [hf] at hnone; exact absurd rfl hnone
  intro n k' hk' v0
  unfold recOf
  rw [alookup_ainsert]
  by_cases hn : n = litVal idx
  · subst hn
    simp only [beq_self_eq_true, if_true, Option.getD_some, fieldOf_setField hk hk']
    by_cases hkk : k' = k
    · subst hkk
      simp only [if_true, Option.some.injEq, List.mem_append, List.mem_singleton, valKey, Prod.mk.injEq,
        true_and]
      constructor
      · intro hv0
        exact ⟨litVal v, hv0, Or.inr rfl⟩
      · rintro ⟨w, hw, hq | hq⟩
        · have := (vinv _ _ hk' (w : Int)).2 ⟨w, rfl, hq⟩
          rw [hnone'] at this
          cases this
        · rw [← hq]; exact hw
    · simp only [List.mem_append, List.mem_singleton, valKey, Prod.mk.injEq, hkk, false_and,
        and_false, or_false]
      exact vinv _ _ hk' v0
  · have hne : (((litVal idx : Int) - 1) == ((n : Int) - 1)) = false := by
      simp only [beq_eq_false_iff_ne, ne_eq]; omega
    simp only [hne, Bool.false_eq_true, if_false, List.mem_append, List.mem_singleton, valKey,
      Prod.mk.injEq, hn, false_and, or_false]
    exact vinv _ _ hk' v0

theorem attrFold_val : ∀ (L : List (Str × Str × Str)) (P : List (Nat × Str)) (Q : List (Nat × Str × Nat))
    (acc : List (Int × Atom)), Inv acc P → VInv acc Q → (∀ x ∈ L, SettingLit x) →
    ∀ r, L.foldlM attrStep acc = .ok r → VInv r (Q ++ L.map valKey)
  | [], P, Q, acc, _, vinv, _, r, hr => by
    have : acc = r := Except.ok.inj hr
    subst this
    simpa using vinv
  | x :: L, P, Q, acc, inv, vinv, hL, r, hr => by
    obtain ⟨s1, s2⟩ := attrStep_char inv (hL x List.mem_cons_self)
    have hL' : ∀ y ∈ L, SettingLit y := fun y hy => hL y (List.mem_cons_of_mem _ hy)
    rw [List.foldlM_cons] at hr
    obtain ⟨acc', h1, h2⟩ := bind_ok hr
    obtain ⟨acc'', h1', inv'⟩ := s1 (s2 acc' h1)
    rw [h1] at h1'
    have : acc' = acc'' := Except.ok.inj h1'
    subst this
    have vinv' := attrStep_val inv vinv (hL x List.mem_cons_self) h1
    have := attrFold_val L _ _ acc' inv' vinv' hL' r h2
    rw [List.map_cons, List.append_cons]
    exact this

theorem valuedSettings_eq (ast : Ast) : ast.valuedSettings = (flatSettings ast.attrs).map valKey := by
  unfold Ast.valuedSettings flatSettings
  rw [List.map_flatMap]
  congr 1
  funext b
  rw [List.map_map]
  rfl

/-- the attribute listener stores exactly the stated values -/
theorem listenAttrs_val {ast : Ast} (ha : AttrsOk ast.attrs) (r : List (Int × Atom))
    (hr : listenAttrs ast.attrs = .ok r) : VInv r ast.valuedSettings := by
  rw [listenAttrs_flat] at hr
  have := attrFold_val (flatSettings ast.attrs) [] [] [] inv_nil vinv_nil (flat_lit ha) r hr
  rw [List.nil_append, ← valuedSettings_eq] at this
  exact this

theorem recOf_succ (st : ListenerState) (i : Nat) : recOf st.nodeAttrs (i + 1) = extraOf st (i : Int) := by
  unfold recOf extraOf
  have : (((i + 1 : Nat) : Int) - 1) = (i : Int) := by omega
  rw [this]

theorem fieldOf_mass (a : Atom) : fieldOf "mass".toList a = a.mass := if_pos rfl

theorem fieldOf_rad (a : Atom) : fieldOf "rad".toList a = a.rad := if_neg mass_ne_rad

theorem field_eq {r r' : List (Int × Atom)} {Q Q' : List (Nat × Str × Nat)} (v : VInv r Q) (v' : VInv r' Q')
    (hQ : ∀ x, x ∈ Q ↔ x ∈ Q') (n : Nat) (k : Str) (hk : KeyText k) :
    fieldOf k (recOf r n) = fieldOf k (recOf r' n) := by
  apply Option.ext
  intro a
  rw [v n k hk a, v' n k hk a]
  constructor
  · rintro ⟨w, hw, hq⟩; exact ⟨w, hw, (hQ _).1 hq⟩
  · rintro ⟨w, hw, hq⟩; exact ⟨w, hw, (hQ _).2 hq⟩

/-- the listener state of an accepted string, for the given tokens and tree -/
theorem state_of (s : Str) (toks : List Tok) (ast : Ast) (hl : lex s = some toks) (hsen : Sentence toks ast)
    (g : Graph) (hg : graphFromTucan s = .ok g) :
    ∃ st : ListenerState, listenFormula ast.formula = .ok st.atoms ∧ listenTuples ast.tuples = .ok st.bonds ∧
      listenAttrs ast.attrs = .ok st.nodeAttrs ∧ toGraph st = .ok g ∧ GoodState st ∧
      TuplesOk ast.tuples ∧ AttrsOk ast.attrs := by
  obtain ⟨toks0, ast0, st, hl0, hp0, h1, h2, h3, h4, hgood⟩ := graphFromTucan_state s g hg
  rw [hl] at hl0
  cases hl0
  rw [(parseTucan_iff toks ast).2 hsen] at hp0
  cases hp0
  obtain ⟨_, o2, o3⟩ := sentence_ok hsen (lex_lit hl)
  exact ⟨st, h1, h2, h3, h4, hgood, o2, o3⟩

theorem bonds_mem {tu : List (Str × Str)} (htu : TuplesOk tu) (bs : List (Int × Int))
    (h : listenTuples tu = .ok bs) (i j : Nat) :
    (((i : Int), (j : Int)) ∈ bs ∨ ((j : Int), (i : Int)) ∈ bs) ↔
      ∃ p ∈ tu, (litVal p.1 = i + 1 ∧ litVal p.2 = j + 1) ∨ (litVal p.1 = j + 1 ∧ litVal p.2 = i + 1) := by
  obtain ⟨t1, t2⟩ := listenTuples_char htu
  have := t1 (t2 bs h)
  rw [h] at this
  have hbs : bs = tu.flatMap tupleBond := Except.ok.inj this
  subst hbs
  rw [mem_flatMap_tupleBond, mem_flatMap_tupleBond]
  constructor
  · rintro (⟨p, hp, he⟩ | ⟨p, hp, he⟩)
    · simp only [Prod.mk.injEq] at he
      exact ⟨p, hp, Or.inl ⟨by omega, by omega⟩⟩
    · simp only [Prod.mk.injEq] at he
      exact ⟨p, hp, Or.inr ⟨by omega, by omega⟩⟩
  · rintro ⟨p, hp, ⟨h1, h2⟩ | ⟨h1, h2⟩⟩
    · refine Or.inl ⟨p, hp, ?_⟩
      simp only [Prod.mk.injEq]
      exact ⟨by omega, by omega⟩
    · refine Or.inr ⟨p, hp, ?_⟩
      simp only [Prod.mk.injEq]
      exact ⟨by omega, by omega⟩

end Respell

open Respell Tucan.Acc in
/-- the two parsed graphs are the same molecule, atom `i` ↦ atom `i` -/
theorem respelling_iso (s s' : Str) (toks toks' : List Tok) (ast ast' : Ast)
    (hl : lex s = some toks) (hsen : Sentence toks ast) (hl' : lex s' = some toks') (hsen' : Sentence toks' ast')
    (same : SameMeaning ast ast') (g g' : Graph)
    (hg : graphFromTucan s = .ok g) (hg' : graphFromTucan s' = .ok g') :
    Iso SameIdent id g g' ∧ g.Chem ∧ g.WF ∧ g.Simple ∧ g'.WF ∧ g'.Simple := by
  obtain ⟨st, h1, h2, h3, h4, hgood, o2, o3⟩ := state_of s toks ast hl hsen g hg
  obtain ⟨st', h1', h2', h3', h4', hgood', o2', o3'⟩ := state_of s' toks' ast' hl' hsen' g' hg'
  obtain ⟨gw, gs, gm, _, _⟩ := graphFromTucan_mol s g hg
  obtain ⟨gw', gs', _, _, _⟩ := graphFromTucan_mol s' g' hg'
  have hatoms : st.atoms = st'.atoms := by
    rw [same.formula, h1'] at h1
    exact (Except.ok.inj h1).symm
  have vinv := listenAttrs_val o3 _ h3
  have vinv' := listenAttrs_val o3' _ h3'
  have iso : Iso SameIdent id g g' := by
    refine toGraph_respell st st' hgood hgood' id (by rw [hatoms]) (fun i hi => hi)
      (fun i j _ _ h => h) (fun i _ => by rw [hatoms]; rfl) ?_ ?_ g g' h4 h4'
    · intro i _
      have hm := field_eq vinv vinv' same.settings (i + 1) _ (Or.inl rfl)
      have hr := field_eq vinv vinv' same.settings (i + 1) _ (Or.inr rfl)
      rw [recOf_succ, recOf_succ, fieldOf_mass, fieldOf_mass] at hm
      rw [recOf_succ, recOf_succ, fieldOf_rad, fieldOf_rad] at hr
      exact ⟨hm.symm, hr.symm⟩
    · intro i j _ _
      show _ ↔ (((i : Int), (j : Int)) ∈ st'.bonds ∨ ((j : Int), (i : Int)) ∈ st'.bonds)
      rw [bonds_mem o2 _ h2, bonds_mem o2' _ h2']
      exact same.bonds (i + 1) (j + 1)
  exact ⟨iso, fun a ha x hx => (gm a ha x hx).chem, gw, gs, gw', gs'⟩

/-- **Respellings normalize to the same string**, for every oracle meeting the bliss contract. -/
theorem respelling_same_string (O : CanonOracle) (s s' : Str) (toks toks' : List Tok) (ast ast' : Ast)
    (hl : lex s = some toks) (hsen : Sentence toks ast) (hl' : lex s' = some toks') (hsen' : Sentence toks' ast')
    (same : SameMeaning ast ast') (g g' : Graph)
    (hg : graphFromTucan s = .ok g) (hg' : graphFromTucan s' = .ok g')
    (t t' : Str) (ht : tucanOf O.order g = .ok t) (ht' : tucanOf O.order g' = .ok t') : t = t' := by
  obtain ⟨iso, hchem, gw, gs, gw', gs'⟩ := respelling_iso s s' toks toks' ast ast' hl hsen hl' hsen' same g g' hg hg'
  exact tucan_invariant O iso hchem gw gs gw' gs' ht ht'

end Tucan
