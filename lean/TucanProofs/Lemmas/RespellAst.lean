import TucanProofs.Lemmas.AcceptIff
import TucanProofs.Lemmas.Pipeline
/-!
# Respelling, at the level of strings

Two accepted strings whose syntax trees *say the same thing* — the same formula, the same set of bonded pairs
(tuples in any order, endpoints either way round, a tuple any number of times), the same attribute settings
(blocks in any order, split or merged, properties in any order) — parse to the same molecule, atom for atom,
and hence normalize to the same canonical string.  (Renumbering atoms inside an element block is the
state-level theorem `toGraph_respell`, C11_respelling.)
-/
namespace Tucan

/-- the attribute settings of a tree with their values: (atom index, key, value) -/
def Ast.valuedSettings (ast : Ast) : List (Nat × Str × Nat) :=
  ast.attrs.flatMap fun b => b.2.map fun kv => (litVal b.1, kv.1, litVal kv.2)

/-- two syntax trees that say the same thing -/
structure SameMeaning (a b : Ast) : Prop where
  formula : a.formula = b.formula
  bonds : ∀ i j : Nat,
    (∃ p ∈ a.tuples, (litVal p.1 = i ∧ litVal p.2 = j) ∨ (litVal p.1 = j ∧ litVal p.2 = i)) ↔
    (∃ p ∈ b.tuples, (litVal p.1 = i ∧ litVal p.2 = j) ∨ (litVal p.1 = j ∧ litVal p.2 = i))
  settings : ∀ x, x ∈ a.valuedSettings ↔ x ∈ b.valuedSettings

/-- the two parsed graphs are the same molecule, atom `i` ↦ atom `i` -/
theorem respelling_iso (s s' : Str) (toks toks' : List Tok) (ast ast' : Ast)
    (hl : lex s = some toks) (hsen : Sentence toks ast) (hl' : lex s' = some toks') (hsen' : Sentence toks' ast')
    (same : SameMeaning ast ast') (g g' : Graph)
    (hg : graphFromTucan s = .ok g) (hg' : graphFromTucan s' = .ok g') :
    Iso SameIdent id g g' ∧ g.Chem ∧ g.WF ∧ g.Simple ∧ g'.WF ∧ g'.Simple := by
  sorry

/-- **Respellings normalize to the same string**, for every oracle meeting the bliss contract. -/
theorem respelling_same_string (O : CanonOracle) (s s' : Str) (toks toks' : List Tok) (ast ast' : Ast)
    (hl : lex s = some toks) (hsen : Sentence toks ast) (hl' : lex s' = some toks') (hsen' : Sentence toks' ast')
    (same : SameMeaning ast ast') (g g' : Graph)
    (hg : graphFromTucan s = .ok g) (hg' : graphFromTucan s' = .ok g')
    (t t' : Str) (ht : tucanOf O.order g = .ok t) (ht' : tucanOf O.order g' = .ok t') : t = t' := by
  sorry

end Tucan
