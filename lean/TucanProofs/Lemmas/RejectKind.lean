import TucanProofs.Lemmas.Tables
/-!
# Every rejection is the parser's own exception

`graphFromTucan` is the model of `graph_from_tucan`: lexer, recogniser, tree listener, `to_graph`,
`graph_from_molecule`.  Whatever the input string, if it is not accepted the error is
`TucanParserException` — never `KeyError`, `IndexError`, `ValueError` or anything else.
-/
namespace Tucan.RejectKind
open Tucan

/-- the computation either succeeds with a value satisfying `P`, or fails with `tucanParser` -/
def Res {α} (P : α → Prop) : PyM α → Prop
  | .error e => e = .tucanParser
  | .ok a => P a

theorem Res.bind {α β} {P : α → Prop} {Q : β → Prop} {x : PyM α} {f : α → PyM β}
    (hx : Res P x) (hf : ∀ a, P a → Res Q (f a)) : Res Q (x >>= f) := by
  cases x with
  | error e => exact hx
  | ok a => exact hf a hx

theorem Res.mono {α} {P Q : α → Prop} {x : PyM α} (hx : Res P x) (h : ∀ a, P a → Q a) :
    Res Q x := by
  cases x with
  | error e => exact hx
  | ok a => exact h a hx

theorem Res.foldlM {α β} {P : β → Prop} {Q : α → Prop} (f : β → α → PyM β)
    (hf : ∀ a, Q a → ∀ b, P b → Res P (f b a)) :
    ∀ (l : List α), (∀ a ∈ l, Q a) → ∀ b, P b → Res P (l.foldlM f b) := by
  intro l
  induction l with
  | nil => intro _ b hb; exact hb
  | cons a l ih =>
    intro hl b hb
    rw [List.foldlM_cons]
    exact Res.bind (hf a (hl a (by simp)) b hb) (fun b' hb' => ih (fun x hx => hl x (by simp [hx])) b' hb')

theorem Res.forIn {α β} {P : β → Prop} {Q : α → Prop} (f : α → β → PyM (ForInStep β))
    (hf : ∀ a, Q a → ∀ b, P b → Res (fun s => P s.value) (f a b)) :
    ∀ (l : List α), (∀ a ∈ l, Q a) → ∀ b, P b → Res P (forIn l b f) := by
  intro l
  induction l with
  | nil => intro _ b hb; exact hb
  | cons a l ih =>
    intro hl b hb
    rw [List.forIn_cons]
    refine Res.bind (hf a (hl a (by simp)) b hb) (fun s hs => ?_)
    cases s with
    | done b' => exact hs
    | yield b' => exact ih (fun x hx => hl x (by simp [hx])) b' hs

theorem Res.mapM {α β} {P : β → Prop} {Q : α → Prop} (f : α → PyM β)
    (hf : ∀ a, Q a → Res P (f a)) :
    ∀ (l : List α), (∀ a ∈ l, Q a) → Res (fun ys => ∀ y ∈ ys, P y) (l.mapM f) := by
  intro l
  induction l with
  | nil => intro _; simp [Res, pure, Except.pure]
  | cons a l ih =>
    intro hl
    rw [List.mapM_cons]
    refine Res.bind (hf a (hl a (by simp))) (fun y hy => ?_)
    refine Res.bind (ih (fun x hx => hl x (by simp [hx]))) (fun ys hys => ?_)
    show ∀ z ∈ y :: ys, P z
    intro z hz
    rcases List.mem_cons.1 hz with rfl | hz
    · exact hy
    · exact hys z hz

/-! ## `int(text) ≥ 1` for texts that start with a digit `1`..`9` -/

/-- the text starts with a digit `1`..`9` -/
def PosText (t : Str) : Prop := ∃ c r, t = c :: r ∧ '1' ≤ c ∧ c ≤ '9'

theorem dropWhile_append_singleton {p : Char → Bool} {c : Char} (hc : p c = false) :
    ∀ l : List Char, (l ++ [c]).dropWhile p = l.dropWhile p ++ [c] := by
  intro l
  induction l with
  | nil => simp [List.dropWhile, hc]
  | cons a l ih =>
    by_cases ha : p a = true
    · simp [List.dropWhile, ha, ih]
    · simp [List.dropWhile, ha]

theorem dropWhileEnd_cons {p : Char → Bool} {c : Char} (hc : p c = false) (r : Str) :
    dropWhileEnd p (c :: r) = c :: dropWhileEnd p r := by
  simp [dropWhileEnd, dropWhile_append_singleton hc]

theorem char_facts {c : Char} (h1 : '1' ≤ c) (h9 : c ≤ '9') :
    isPySpace c = false ∧ c ≠ '-' ∧ c ≠ '+' ∧ isDigit c = true ∧ 1 ≤ digitVal c := by
  have h1' : 49 ≤ c.toNat := h1
  have h9' : c.toNat ≤ 57 := h9
  refine ⟨?_, ?_, ?_, ?_, ?_⟩
  · have h0 : c ≠ ' ' := by rintro rfl; revert h1'; decide
    have ht : c ≠ '\t' := by rintro rfl; revert h1'; decide
    have hn : c ≠ '\n' := by rintro rfl; revert h1'; decide
    have hr : c ≠ '\r' := by rintro rfl; revert h1'; decide
    simp only [isPySpace, isUniSpace, Bool.or_eq_false_iff, beq_eq_false_iff_ne, ne_eq, Bool.and_eq_false_iff,
      decide_eq_false_iff_not]
    refine ⟨⟨⟨⟨⟨⟨⟨h0, ht⟩, hn⟩, hr⟩, ?_⟩, ?_⟩, ?_⟩, ⟨⟨⟨⟨⟨⟨⟨⟨?_, ?_⟩, ?_⟩, ?_⟩, ?_⟩, ?_⟩, ?_⟩, ?_⟩, ?_⟩⟩ <;> omega
  · rintro rfl; revert h1'; decide
  · rintro rfl; revert h1'; decide
  · simp only [isDigit, Bool.and_eq_true, decide_eq_true_eq]
    constructor
    · show 48 ≤ c.toNat
      omega
    · exact h9
  · show 1 ≤ c.toNat - 48
    omega

/-- what `int()` parses of a text that starts with a digit `1`..`9` still starts with that digit -/
theorem numText_pos {c : Char} (h1 : '1' ≤ c) (h9 : c ≤ '9') (r : Str) :
    numText (c :: r) = c :: dropWhileEnd isCSpace (r.map foldChar) := by
  have h1' : 49 ≤ c.toNat := h1
  have h9' : c.toNat ≤ 57 := h9
  have hf : foldChar c = c := by simp [foldChar, show c.toNat < 128 by omega]
  have hcs : isCSpace c = false := by
    have h0 : c ≠ ' ' := by rintro rfl; revert h1'; decide
    simp only [isCSpace, Bool.or_eq_false_iff, beq_eq_false_iff_ne, ne_eq, Bool.and_eq_false_iff,
      decide_eq_false_iff_not]
    exact ⟨h0, by omega⟩
  unfold numText
  simp only [List.map_cons, hf, List.dropWhile, hcs]
  exact dropWhileEnd_cons hcs _

theorem foldl_digits_ge (ds : List Char) : ∀ acc : Nat,
    acc ≤ ds.foldl (fun acc c => acc * 10 + digitVal c) acc := by
  induction ds with
  | nil => intro acc; exact Nat.le_refl _
  | cons d ds ih =>
    intro acc
    simp only [List.foldl_cons]
    exact Nat.le_trans (by omega) (ih _)

/-- `pyInt.match_1` is the sign-splitting `match` inside `pyInt` -/
theorem pyInt_pos {t : Str} (ht : PosText t) {i : Int} (h : pyInt t = .ok i) : 1 ≤ i := by
  obtain ⟨c, r, rfl, h1, h9⟩ := ht
  obtain ⟨hsp, hm, hp, hd, hv⟩ := char_facts h1 h9
  have hstrip : numText (c :: r) = c :: dropWhileEnd isCSpace (r.map foldChar) := numText_pos h1 h9 r
  have hmatch : pyInt.match_1 (fun _ => Bool × List Char) (c :: dropWhileEnd isCSpace (r.map foldChar))
      (fun r => (true, r)) (fun r => (false, r)) (fun r => (false, r))
      = (false, c :: dropWhileEnd isCSpace (r.map foldChar)) := by
    split
    · next heq => injection heq with h2 _; exact absurd h2 hm
    · next heq => injection heq with h2 _; exact absurd h2 hp
    · rfl
  unfold pyInt at h
  simp only [hstrip, hmatch, digitsWithUnderscores, digitsGo, hd, if_true] at h
  cases hg : digitsGo 1 (dropWhileEnd isCSpace (r.map foldChar)) with
  | none => simp [hg] at h
  | some ds =>
    simp only [hg, Option.map_some] at h
    split at h
    · cases h
    · injection h with h
      subst h
      simp only [Bool.false_eq_true, if_false]
      have := foldl_digits_ge ds (0 * 10 + digitVal c)
      have h2 : 1 ≤ natOfDigits (c :: ds) := by
        simp only [natOfDigits, List.foldl_cons]
        omega
      exact Int.ofNat_le.2 h2

/-! ## What the lexer emits: every `GREATER_THAN_NINE` text starts with `1`..`9` -/

def GoodTok : Tok → Prop
  | .lit _ => True
  | .big ds => PosText ds

theorem bigNumberLen_pos {s : Str} (h : 0 < bigNumberLen s) : PosText (s.take (bigNumberLen s)) := by
  unfold bigNumberLen at h ⊢
  split at h
  · next c r =>
    split at h
    · next hc =>
      simp only at h
      split at h
      · next hk =>
        simp only [hc, hk, if_true, List.take_succ_cons]
        simp only [Bool.and_eq_true, decide_eq_true_eq] at hc
        exact ⟨c, _, rfl, hc.1, hc.2⟩
      · exact absurd h (by decide)
    · exact absurd h (by decide)
  · exact absurd h (by decide)

theorem lexGo_good (lits : List Str) : ∀ (fuel : Nat) (s : Str) (ts : List Tok),
    lexGo lits fuel s = some ts → ∀ t ∈ ts, GoodTok t := by
  intro fuel
  induction fuel with
  | zero =>
    intro s ts h
    cases s with
    | nil => simp [lexGo] at h; subst h; simp
    | cons c r => simp [lexGo] at h
  | succ fuel ih =>
    intro s ts h
    cases s with
    | nil => simp [lexGo] at h; subst h; simp
    | cons c r =>
      simp only [lexGo] at h
      split at h
      · next hb =>
        cases hr : lexGo lits fuel (List.drop (bigNumberLen (c :: r)) (c :: r)) with
        | none => simp [hr] at h
        | some ts' =>
          simp only [hr, Option.map_some, Option.some.injEq] at h
          subst h
          intro t ht
          rcases List.mem_cons.1 ht with rfl | ht
          · exact bigNumberLen_pos (Nat.lt_of_le_of_lt (Nat.zero_le _) hb)
          · exact ih _ _ hr t ht
      · split at h
        · cases hr : lexGo lits fuel (List.drop (longestLiteral lits (c :: r)) (c :: r)) with
          | none => simp [hr] at h
          | some ts' =>
            simp only [hr, Option.map_some, Option.some.injEq] at h
            subst h
            intro t ht
            rcases List.mem_cons.1 ht with rfl | ht
            · trivial
            · exact ih _ _ hr t ht
        · cases h

theorem lex_good {s : Str} {ts : List Tok} (h : lex s = some ts) : ∀ t ∈ ts, GoodTok t :=
  lexGo_good _ _ _ _ h

theorem gtZero_pos {t : Tok} (hg : GoodTok t) (hz : isGtZero t = true) : PosText t.text := by
  cases t with
  | lit s =>
    simp only [isGtZero, digit1to9] at hz
    split at hz
    · next c =>
      simp only [Bool.and_eq_true, decide_eq_true_eq] at hz
      exact ⟨c, [], rfl, hz.1, hz.2⟩
    · cases hz
  | big ds => exact hg

/-! ## What the recogniser returns: symbols of the chosen element order, keys `mass`/`rad`,
node indices that are `greater_than_zero` tokens of the lexer -/

def KeyText (k : Str) : Prop := k = "mass".toList ∨ k = "rad".toList

theorem parseElems_spec : ∀ (order : List Str) (ts : List Tok) (items : List (Str × Option Str))
    (rest : List Tok), parseElems order ts = (items, rest) →
    (∀ p ∈ items, p.1 ∈ order) ∧ rest ⊆ ts := by
  intro order
  induction order with
  | nil =>
    intro ts items rest h
    simp only [parseElems, Prod.mk.injEq] at h
    obtain ⟨rfl, rfl⟩ := h
    simp
  | cons e es ih =>
    intro ts items rest h
    unfold parseElems at h
    split at h
    · next s rest0 =>
      split at h
      · split at h
        · next c rest' =>
          split at h
          · cases hr : parseElems es rest' with
            | mk r ts' =>
              simp only [hr, Prod.mk.injEq] at h
              obtain ⟨rfl, rfl⟩ := h
              obtain ⟨h1, h2⟩ := ih _ _ _ hr
              refine ⟨?_, ?_⟩
              · intro p hp
                rcases List.mem_cons.1 hp with rfl | hp
                · simp
                · exact List.mem_cons_of_mem _ (h1 p hp)
              · intro t ht
                exact List.mem_cons_of_mem _ (List.mem_cons_of_mem _ (h2 ht))
          · cases hr : parseElems es (c :: rest') with
            | mk r ts' =>
              simp only [hr, Prod.mk.injEq] at h
              obtain ⟨rfl, rfl⟩ := h
              obtain ⟨h1, h2⟩ := ih _ _ _ hr
              refine ⟨?_, ?_⟩
              · intro p hp
                rcases List.mem_cons.1 hp with rfl | hp
                · simp
                · exact List.mem_cons_of_mem _ (h1 p hp)
              · intro t ht
                exact List.mem_cons_of_mem _ (h2 ht)
        · simp only [Prod.mk.injEq] at h
          obtain ⟨rfl, rfl⟩ := h
          simp
      · obtain ⟨h1, h2⟩ := ih _ _ _ h
        exact ⟨fun p hp => List.mem_cons_of_mem _ (h1 p hp), h2⟩
    · simp only [Prod.mk.injEq] at h
      obtain ⟨rfl, rfl⟩ := h
      simp

theorem parseFormula_spec {ts : List Tok} {f : List (Str × Option Str)} {rest : List Tok}
    (h : parseFormula ts = some (f, rest)) :
    (∀ p ∈ f, p.1 ∈ withCarbonOrder ++ withoutCarbonOrder) ∧ rest ⊆ ts := by
  unfold parseFormula at h
  split at h
  · split at h
    · split at h
      · simp only [Option.some.injEq] at h
        obtain ⟨h1, h2⟩ := parseElems_spec _ _ _ _ h
        exact ⟨fun p hp => List.mem_append_left _ (h1 p hp), h2⟩
      · cases h
    · cases h
  · simp only [Option.some.injEq] at h
    obtain ⟨h1, h2⟩ := parseElems_spec _ _ _ _ h
    exact ⟨fun p hp => List.mem_append_right _ (h1 p hp), h2⟩

theorem parseTuples_subset : ∀ (ts : List Tok) (tu : List (Str × Str)) (rest : List Tok),
    parseTuples ts = some (tu, rest) → rest ⊆ ts := by
  intro ts
  fun_induction parseTuples ts with
  | case1 a b rest hab ih =>
    intro tu rest' h
    cases hr : parseTuples rest with
    | none => simp [hr] at h
    | some p =>
      obtain ⟨r, ts'⟩ := p
      simp only [hr, Option.map_some, Option.some.injEq, Prod.mk.injEq] at h
      obtain ⟨_, rfl⟩ := h
      intro t ht
      have := ih _ _ hr ht
      simp [this]
  | case2 => intro tu rest' h; cases h
  | case3 => intro tu rest' h; cases h
  | case4 ts h1 h2 =>
    intro tu rest' h
    simp only [Option.some.injEq, Prod.mk.injEq] at h
    obtain ⟨_, rfl⟩ := h
    exact fun _ h => h

theorem isKey_text {k : Tok} (h : isKey k = true) : KeyText k.text := by
  simp only [isKey, Bool.or_eq_true, beq_iff_eq] at h
  rcases h with rfl | rfl
  · exact Or.inl rfl
  · exact Or.inr rfl

theorem parseProps_spec : ∀ (ts : List Tok) (ps : List (Str × Str)) (rest : List Tok),
    parseProps ts = some (ps, rest) → (∀ q ∈ ps, KeyText q.1) ∧ rest ⊆ ts := by
  intro ts
  fun_induction parseProps ts with
  | case1 rest =>
    intro ps rest' h
    simp only [Option.some.injEq, Prod.mk.injEq] at h
    obtain ⟨rfl, rfl⟩ := h
    exact ⟨by simp, fun _ h => List.mem_cons_of_mem _ h⟩
  | case2 k v rest hkv ih =>
    intro ps rest' h
    cases hr : parseProps rest with
    | none => simp [hr] at h
    | some p =>
      obtain ⟨r, ts'⟩ := p
      simp only [hr, Option.map_some, Option.some.injEq, Prod.mk.injEq] at h
      obtain ⟨rfl, rfl⟩ := h
      obtain ⟨h1, h2⟩ := ih _ _ hr
      simp only [Bool.and_eq_true] at hkv
      refine ⟨?_, ?_⟩
      · intro q hq
        rcases List.mem_cons.1 hq with rfl | hq
        · exact isKey_text hkv.1
        · exact h1 q hq
      · intro t ht
        have := h2 ht
        simp [this]
  | case3 => intro ps rest' h; cases h
  | case4 => intro ps rest' h; cases h

def GoodAttrs (ats : List (Str × List (Str × Str))) : Prop :=
  ∀ p ∈ ats, PosText p.1 ∧ ∀ q ∈ p.2, KeyText q.1

theorem parseAttrs_spec : ∀ (ts : List Tok) (ats : List (Str × List (Str × Str))) (rest : List Tok),
    (∀ t ∈ ts, GoodTok t) → parseAttrs ts = some (ats, rest) → GoodAttrs ats := by
  intro ts
  fun_induction parseAttrs ts with
  | case1 i k v rest hc ps rest' hps hlen ih =>
    intro ats rest'' hg h
    cases hr : parseAttrs rest' with
    | none => simp [hr] at h
    | some p =>
      obtain ⟨r, ts'⟩ := p
      simp only [hr, Option.map_some, Option.some.injEq, Prod.mk.injEq] at h
      obtain ⟨rfl, rfl⟩ := h
      obtain ⟨h1, h2⟩ := parseProps_spec _ _ _ hps
      simp only [Bool.and_eq_true] at hc
      have hg' : ∀ t ∈ rest', GoodTok t := fun t ht => hg t (by have := h2 ht; simp [this])
      have := ih _ _ hg' hr
      intro p hp
      rcases List.mem_cons.1 hp with rfl | hp
      · refine ⟨gtZero_pos (hg i (by simp)) hc.1.1, ?_⟩
        intro q hq
        rcases List.mem_cons.1 hq with rfl | hq
        · exact isKey_text hc.1.2
        · exact h1 q hq
      · exact this p hp
  | case2 => intro ats rest'' hg h; cases h
  | case3 => intro ats rest'' hg h; cases h
  | case4 => intro ats rest'' hg h; cases h
  | case5 => intro ats rest'' hg h; cases h
  | case6 =>
    intro ats rest'' hg h
    simp only [Option.some.injEq, Prod.mk.injEq] at h
    obtain ⟨rfl, rfl⟩ := h
    intro p hp; cases hp

theorem parseTucan_spec {ts : List Tok} {ast : Ast} (hg : ∀ t ∈ ts, GoodTok t)
    (h : parseTucan ts = some ast) :
    (∀ p ∈ ast.formula, p.1 ∈ withCarbonOrder ++ withoutCarbonOrder) ∧ GoodAttrs ast.attrs := by
  unfold parseTucan at h
  cases hf : parseFormula ts with
  | none => simp [hf] at h
  | some p =>
    obtain ⟨f, ts1⟩ := p
    obtain ⟨hf1, hf2⟩ := parseFormula_spec hf
    simp only [hf, Option.bind_eq_bind, Option.bind_some] at h
    split at h
    · next ts2 =>
      cases ht : parseTuples ts2 with
      | none => simp [ht] at h
      | some p =>
        obtain ⟨tu, ts3⟩ := p
        have ht2 := parseTuples_subset _ _ _ ht
        simp only [ht, Option.bind_some] at h
        split at h
        · simp only [Option.some.injEq] at h
          subst h
          exact ⟨hf1, fun p hp => by cases hp⟩
        · next ts4 =>
          cases ha : parseAttrs ts4 with
          | none => simp [ha] at h
          | some p =>
            obtain ⟨ats, ts5⟩ := p
            simp only [ha, Option.bind_some] at h
            split at h
            · simp only [Option.some.injEq] at h
              subst h
              refine ⟨hf1, parseAttrs_spec _ _ _ ?_ ha⟩
              intro t ht4
              apply hg
              apply hf2
              apply List.mem_cons_of_mem
              apply ht2
              exact List.mem_cons_of_mem _ ht4
            · cases h
        · cases h
    · cases h

/-! ## Listener -/

theorem listenerInt_res (t : Str) : Res (fun i => pyInt t = .ok i) (listenerInt t) := by
  unfold listenerInt
  cases h : pyInt t with
  | error e => rfl
  | ok i => rfl

theorem alookup_mem {κ ν} [BEq κ] [LawfulBEq κ] {k : κ} {v : ν} :
    ∀ {l : List (κ × ν)}, alookup k l = some v → (k, v) ∈ l := by
  intro l
  induction l with
  | nil => intro h; cases h
  | cons p l ih =>
    obtain ⟨k', v'⟩ := p
    intro h
    simp only [alookup] at h
    split at h
    · next hk =>
      have := eq_of_beq hk
      simp only [Option.some.injEq] at h
      subst this h
      simp
    · exact List.mem_cons_of_mem _ (ih h)

theorem mem_ainsert {κ ν} [BEq κ] {k : κ} {v : ν} {p : κ × ν} :
    ∀ {l : List (κ × ν)}, p ∈ ainsert k v l → p = (k, v) ∨ p ∈ l := by
  intro l
  induction l with
  | nil => intro h; simp only [ainsert, List.mem_singleton] at h; exact Or.inl h
  | cons q l ih =>
    obtain ⟨k', v'⟩ := q
    intro h
    simp only [ainsert] at h
    split at h
    · rcases List.mem_cons.1 h with h | h
      · exact Or.inl h
      · exact Or.inr (List.mem_cons_of_mem _ h)
    · rcases List.mem_cons.1 h with h | h
      · exact Or.inr (by simp [h])
      · rcases ih h with h | h
        · exact Or.inl h
        · exact Or.inr (List.mem_cons_of_mem _ h)

theorem alookup_ainsert_isSome {κ ν} [BEq κ] [LawfulBEq κ] {k k' : κ} {v : ν} :
    ∀ {l : List (κ × ν)}, (alookup k' l).isSome → (alookup k' (ainsert k v l)).isSome := by
  intro l
  induction l with
  | nil => intro h; cases h
  | cons q l ih =>
    obtain ⟨k0, v0⟩ := q
    intro h
    simp only [ainsert]
    split
    · next hk =>
      have := eq_of_beq hk
      subst this
      simp only [alookup] at h ⊢
      split
      · rfl
      · next hk' => simp only [hk'] at h; exact h
    · simp only [alookup] at h ⊢
      split
      · rfl
      · next hk' => simp only [hk'] at h; exact ih h

theorem elementZ_order :
    (withCarbonOrder ++ withoutCarbonOrder).all (fun e => (elementZ e).isSome) = true := by
  decide +kernel

theorem attrKeyOf_keys :
    attrKeyOf "mass".toList = some "mass" ∧ attrKeyOf "rad".toList = some "rad" := by
  decide +kernel

theorem listenFormula_res {f : List (Str × Option Str)}
    (hf : ∀ p ∈ f, p.1 ∈ withCarbonOrder ++ withoutCarbonOrder) :
    Res (fun (atoms : List Atom) => ∀ a ∈ atoms, a.z.isSome) (listenFormula f) := by
  unfold listenFormula
  refine Res.foldlM (P := fun (atoms : List Atom) => ∀ a ∈ atoms, a.z.isSome)
    (Q := fun p => p.1 ∈ withCarbonOrder ++ withoutCarbonOrder) _ ?_ f hf [] (by simp)
  rintro ⟨sym, cnt⟩ hsym acc hacc
  have hz : (elementZ sym).isSome := by
    have := List.all_eq_true.1 elementZ_order sym hsym
    exact this
  have hpure : ∀ count : Int, Res (fun (atoms : List Atom) => ∀ a ∈ atoms, a.z.isSome)
      (match elementZ sym with
        | some z => (pure z : PyM Nat) >>= fun z =>
          pure (acc ++ List.replicate count.toNat
            ({ sym := some sym, z := some (z : Int), part := some 0 } : Atom))
        | none => (Except.error PyErr.keyError : PyM Nat) >>= fun z =>
          pure (acc ++ List.replicate count.toNat
            ({ sym := some sym, z := some (z : Int), part := some 0 } : Atom))) := by
    intro count
    cases hz' : elementZ sym with
    | none => simp [hz'] at hz
    | some z =>
      show ∀ a ∈ acc ++ List.replicate count.toNat _, a.z.isSome
      intro a ha
      rcases List.mem_append.1 ha with ha | ha
      · exact hacc a ha
      · rw [(List.mem_replicate.1 ha).2]; rfl
  cases cnt with
  | none => exact hpure 1
  | some c => exact Res.bind (listenerInt_res c) (fun count _ => hpure count)

theorem listenTuples_res (tu : List (Str × Str)) : Res (fun _ => True) (listenTuples tu) := by
  unfold listenTuples
  refine Res.foldlM (P := fun _ => True) (Q := fun _ => True) _ ?_ tu (fun _ _ => trivial) [] trivial
  rintro ⟨a, b⟩ _ acc _
  refine Res.bind (listenerInt_res a) (fun i1 _ => ?_)
  refine Res.bind (listenerInt_res b) (fun i2 _ => ?_)
  split
  · rfl
  · trivial


theorem setAttr_res {key : String} (hk : key = "mass" ∨ key = "rad") (v : Int) {a : Atom}
    (ha : a.z = none) : Res (fun a' => a'.z = none) (setAttr key v a) := by
  unfold setAttr
  rcases hk with rfl | rfl
  · simp only [beq_self_eq_true, if_true]
    split
    · rfl
    · exact ha
  · have : ("rad" == "mass") = false := by decide
    simp only [this, Bool.false_eq_true, if_false, beq_self_eq_true, if_true]
    split
    · rfl
    · exact ha

/-- `_node_attributes`: indices are non-negative and no record carries an atomic number -/
def NodeAttrsOk (na : List (Int × Atom)) : Prop := ∀ p ∈ na, 0 ≤ p.1 ∧ p.2.z = none

theorem listenAttrs_res {ats : List (Str × List (Str × Str))} (h : GoodAttrs ats) :
    Res NodeAttrsOk (listenAttrs ats) := by
  unfold listenAttrs
  refine Res.foldlM (P := NodeAttrsOk)
    (Q := fun (p : Str × List (Str × Str)) => PosText p.1 ∧ ∀ q ∈ p.2, KeyText q.1) _ ?_ ats h [] (by intro p hp; cases hp)
  rintro ⟨idx, props⟩ ⟨hidx, hprops⟩ acc hacc
  refine Res.foldlM (P := NodeAttrsOk) (Q := fun (q : Str × Str) => KeyText q.1) _ ?_ props hprops acc hacc
  rintro ⟨k, v⟩ hk acc hacc
  refine Res.bind (listenerInt_res idx) (fun i hi => ?_)
  refine Res.bind (listenerInt_res v) (fun value _ => ?_)
  have hi1 : 1 ≤ i := pyInt_pos hidx hi
  have hjp : ∀ key : String, (key = "mass" ∨ key = "rad") → Res NodeAttrsOk
      (setAttr key value ((alookup (i - 1) acc).getD {}) >>= fun cur' =>
        pure (ainsert (i - 1) cur' acc)) := by
    intro key hkey
    have hcur : ((alookup (i - 1) acc).getD ({} : Atom)).z = none := by
      cases hl : alookup (i - 1) acc with
      | none => rfl
      | some a => exact (hacc _ (alookup_mem hl)).2
    refine Res.bind (setAttr_res hkey value hcur) (fun cur' hcur' => ?_)
    show NodeAttrsOk (ainsert (i - 1) cur' acc)
    intro p hp
    rcases mem_ainsert hp with rfl | hp
    · exact ⟨by show 0 ≤ i - 1; omega, hcur'⟩
    · exact hacc p hp
  rcases hk with hk | hk
  · simp only at hk
    subst hk
    simp only [attrKeyOf_keys.1]
    exact hjp "mass" (Or.inl rfl)
  · simp only at hk
    subst hk
    simp only [attrKeyOf_keys.2]
    exact hjp "rad" (Or.inr rfl)


/-! ## `to_graph` and `graph_from_molecule` -/

theorem graphFromMolecule_res {atoms : List (Int × Atom)} (bonds : List ((Int × Int) × Bond))
    (h : ∀ p ∈ atoms, p.2.z.isSome) : Res (fun _ => True) (graphFromMolecule atoms bonds) := by
  unfold graphFromMolecule
  refine Res.bind (P := fun _ => True) ?_ (fun _ _ => trivial)
  refine Res.mono (Res.mapM (P := fun _ => True) (Q := fun (p : Int × Atom) => p.2.z.isSome) _ ?_ atoms h)
    (fun _ _ => trivial)
  rintro ⟨k, a⟩ ha
  simp only at ha
  refine Res.bind (P := fun _ => True) ?_ (fun _ _ => trivial)
  unfold addInvariantCode
  cases hz : a.z with
  | none => simp [hz] at ha
  | some z => trivial

theorem zipIdx_lookup : ∀ (l : List Atom) (k j : Nat), k ≤ j → j < k + l.length →
    (alookup (j : Int) ((l.zipIdx k).map fun (x : Atom × Nat) => ((x.2 : Int), x.1))).isSome := by
  intro l
  induction l with
  | nil => intro k j h1 h2; simp at h2; omega
  | cons a l ih =>
    intro k j h1 h2
    simp only [List.zipIdx_cons, List.map_cons, alookup]
    split
    · rfl
    · next hne =>
      have hkj : k ≠ j := by
        rintro rfl
        simp at hne
      exact ih (k + 1) j (by omega) (by simp only [List.length_cons] at h2; omega)

/-- the atoms dictionary has every key `0 ≤ idx < n` and every atom has an atomic number -/
def DictOk (n : Int) (d : List (Int × Atom)) : Prop :=
  (∀ idx : Int, 0 ≤ idx → idx < n → (alookup idx d).isSome) ∧ (∀ p ∈ d, p.2.z.isSome)

theorem update_z {a extra : Atom} (h : extra.z = none) : (a.update extra).z = a.z := by
  simp [Atom.update, h]

theorem toGraph_res (st : ListenerState) (hat : ∀ a ∈ st.atoms, a.z.isSome)
    (hna : NodeAttrsOk st.nodeAttrs) : Res (fun _ => True) (toGraph st) := by
  unfold toGraph
  refine Res.bind (P := fun _ => True) ?_ (fun _ _ => ?_)
  · refine Res.forIn (P := fun _ => True) (Q := fun _ => True) _ ?_ _ (fun _ _ => trivial) _ trivial
    rintro ⟨i1, i2⟩ _ b _
    simp only
    split
    · rfl
    · split
      · rfl
      · trivial
  refine Res.bind (P := DictOk st.atoms.length) ?_ (fun d hd => ?_)
  · refine Res.forIn (P := DictOk st.atoms.length) (Q := fun (p : Int × Atom) => 0 ≤ p.1 ∧ p.2.z = none)
      _ ?_ _ hna _ ?_
    · rintro ⟨idx, extra⟩ ⟨hidx, hextra⟩ d ⟨hd1, hd2⟩
      simp only at hidx hextra ⊢
      split
      · rfl
      · next hlt =>
        have hsome := hd1 idx hidx (by omega)
        cases hl : alookup idx d with
        | none => simp [hl] at hsome
        | some a =>
          show DictOk _ (ainsert idx (a.update extra) d)
          refine ⟨fun j hj1 hj2 => alookup_ainsert_isSome (hd1 j hj1 hj2), ?_⟩
          intro p hp
          rcases mem_ainsert hp with rfl | hp
          · show ((a.update extra).z).isSome
            rw [update_z hextra]
            exact hd2 _ (alookup_mem hl)
          · exact hd2 p hp
    · refine ⟨?_, ?_⟩
      · intro idx h0 hn
        have hlen : (sortAtomsByZ st.atoms).length = st.atoms.length := by
          simp [sortAtomsByZ, List.length_mergeSort]
        have := zipIdx_lookup (sortAtomsByZ st.atoms) 0 idx.toNat (Nat.zero_le _) (by omega)
        rw [Int.toNat_of_nonneg h0] at this
        exact this
      · intro p hp
        simp only [List.mem_map] at hp
        obtain ⟨⟨a, i⟩, hmem, rfl⟩ := hp
        obtain ⟨hlt, heq⟩ := List.mem_zipIdx' hmem
        have hin : a ∈ sortAtomsByZ st.atoms := heq ▸ List.getElem_mem _
        exact hat _ (List.mem_mergeSort.1 hin)
  · refine Res.bind (P := fun _ => True) (graphFromMolecule_res _ hd.2) (fun _ _ => trivial)

/-! ## Assembly -/

theorem graphFromTucan_res (s : Str) : Res (fun _ => True) (graphFromTucan s) := by
  unfold graphFromTucan
  cases hl : lex s with
  | none => rfl
  | some toks =>
    simp only [pure_bind]
    cases hp : parseTucan toks with
    | none => rfl
    | some ast =>
      obtain ⟨h1, h2⟩ := parseTucan_spec (lex_good hl) hp
      show Res _ (listenFormula ast.formula >>= _)
      refine Res.bind (listenFormula_res h1) (fun atoms hat => ?_)
      refine Res.bind (listenTuples_res _) (fun bonds _ => ?_)
      refine Res.bind (listenAttrs_res h2) (fun na hna => ?_)
      exact toGraph_res _ hat hna

end Tucan.RejectKind

namespace Tucan

theorem graphFromTucan_error_kind (s : Str) (e : PyErr) (h : graphFromTucan s = .error e) :
    e = .tucanParser := by
  have := RejectKind.graphFromTucan_res s
  rw [h] at this
  exact this

end Tucan
