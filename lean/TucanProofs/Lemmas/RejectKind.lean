import TucanProofs.Lemmas.Tables
/-!
# Every rejection is the parser's own exception

`graphFromTucan` is the model of `graph_from_tucan`: lexer, recogniser, tree listener, `to_graph`,
`graph_from_molecule`.  Whatever the input string, if it is not accepted the error is
`TucanParserException` — never `KeyError`, `IndexError`, `ValueError` or anything else.
-/
namespace Tucan

theorem graphFromTucan_error_kind (s : Str) (e : PyErr) (h : graphFromTucan s = .error e) :
    e = .tucanParser := by
  sorry

end Tucan
