import TucanProofs.Lemmas.RespellAst
/-!
# The graph an accepted string denotes, read off its syntax tree

`graphFromTucan_accepts_iff` says *which* strings are accepted; `toGraph_spec` says what graph a listener
*state* becomes.  This file closes the gap between them: the graph returned for an accepted string is described
by the syntax tree alone — how many atoms, which elements in which order, which pairs are bonded, which mass
and radical values sit on which atom — with no mention of the listener state.
-/
namespace Tucan

/-- the element symbols the formula states, in formula order, each repeated as often as its count says -/
def Ast.expansion (ast : Ast) : List Str :=
  ast.formula.flatMap fun p => List.replicate (Acc.itemCount p) p.1

namespace AstDen
open Tucan.Acc

/-- the element symbol of an atom record (`[]` if it has none) -/
def symOf (a : Atom) : Str := a.sym.getD []

/-- an atom as the formula listener creates it -/
def FAt (a : Atom) : Prop :=
  ∃ (s : Str) (z : Nat), elementZ s = some z ∧ a = { sym := some s, z := some (z : Int), part := some 0 }

theorem expansion_length_aux : ∀ (f : List (Str × Option Str)),
    (f.flatMap fun p => List.replicate (itemCount p) p.1).length = (f.map itemCount).sum
  | [] => rfl
  | p :: r => by
    rw [List.flatMap_cons, List.length_append, List.map_cons, List.sum_cons, List.length_replicate,
      expansion_length_aux r]

theorem fat_of_mem {f : List (Str × Option Str)} {a : Atom} (ha : a ∈ f.flatMap expand) : FAt a := by
  obtain ⟨p, _, hp⟩ := List.mem_flatMap.1 ha
  unfold expand at hp
  cases hz : elementZ p.1 with
  | none => rw [hz] at hp; cases hp
  | some z =>
    rw [hz] at hp
    exact ⟨p.1, z, hz, (List.mem_replicate.1 hp).2⟩

theorem map_symOf_expand {p : Str × Option Str} (h : (elementZ p.1).isSome) :
    (expand p).map symOf = List.replicate (itemCount p) p.1 := by
  unfold expand
  cases hz : elementZ p.1 with
  | none => rw [hz] at h; cases h
  | some z =>
    simp only [List.map_replicate]
    rfl

theorem map_symOf_flatMap : ∀ (f : List (Str × Option Str)), FormulaOk f →
    (f.flatMap expand).map symOf = f.flatMap fun p => List.replicate (itemCount p) p.1
  | [], _ => rfl
  | p :: r, h => by
    rw [List.flatMap_cons, List.flatMap_cons, List.map_append, map_symOf_expand (h p List.mem_cons_self).1,
      map_symOf_flatMap r (fun q hq => h q (List.mem_cons_of_mem _ hq))]

theorem sorted_perm (l : List Atom) : (sortAtomsByZ l).Perm l := List.mergeSort_perm l _

theorem sorted_pairwise (l : List Atom) :
    (sortAtomsByZ l).Pairwise (fun a b => a.z.getD 0 ≤ b.z.getD 0) := by
  have := List.pairwise_mergeSort (le := fun (a b : Atom) => decide (a.z.getD 0 ≤ b.z.getD 0))
    (fun a b c hab hbc => by simp only [decide_eq_true_eq] at *; omega)
    (fun a b => by simp only [Bool.or_eq_true, decide_eq_true_eq]; omega) l
  simpa [sortAtomsByZ] using this

theorem orElse_none' {α} (o : Option α) : (o <|> none) = o := by cases o <;> rfl

/-- the fields of the atom the parser returns: identity from the formula atom, mass / radical from the
attribute record, nothing else -/
theorem out_fields {a e x : Atom} {s : Str} {z : Nat}
    (ha : a = { sym := some s, z := some (z : Int), part := some 0 }) (he : OnlyMassRad e)
    (hx : addInvariantCode (a.update e) = .ok x) :
    x.sym = some s ∧ x.z = some (z : Int) ∧ x.mass = e.mass ∧ x.rad = e.rad ∧
      x.chg = none ∧ x.x = none ∧ x.y = none ∧ x.zc = none := by
  subst ha
  obtain ⟨a1, a2, a3, a4, a5, a6, a7, a8, a9, a10⟩ := he
  cases e
  simp only at a1 a2 a3 a4 a5 a6 a7 a8 a9 a10
  subst a1 a2 a3 a4 a5 a6 a7 a8 a9 a10
  have := Except.ok.inj hx
  subst this
  refine ⟨rfl, rfl, ?_, ?_, rfl, rfl, rfl, rfl⟩
  · exact orElse_none' _
  · exact orElse_none' _

theorem attrs?_none_of_not_mem {g : Graph} {a : Nat} (h : a ∉ g.labels) : g.attrs? a = none := by
  unfold Graph.attrs?
  rw [NxRelabel.find?_eq_none_iff.2 h]; rfl

end AstDen

theorem Ast.expansion_length (ast : Ast) : ast.expansion.length = ast.atomCount := by
  rw [Acc.atomCount_eq]
  exact AstDen.expansion_length_aux ast.formula

/-- **The returned graph, in terms of the syntax tree.** -/
theorem graphFromTucan_denotes (s : Str) (g : Graph) (h : graphFromTucan s = .ok g) :
    ∃ toks ast, lex s = some toks ∧ Sentence toks ast ∧ ast.Valid ∧
      g.labels = List.range ast.atomCount ∧ g.WF ∧ g.Simple ∧
      (∃ syms : List Str, syms.Perm ast.expansion ∧
        syms.Pairwise (fun a b => (elementZ a).getD 0 ≤ (elementZ b).getD 0) ∧
        ∀ i (hi : i < syms.length), ∃ x z, g.attrs? i = some x ∧ x.sym = some syms[i] ∧
          elementZ syms[i] = some z ∧ x.z = some (z : Int)) ∧
      (∀ i j : Nat, g.Adj i j ↔
        ∃ p ∈ ast.tuples, (litVal p.1 = i + 1 ∧ litVal p.2 = j + 1) ∨ (litVal p.1 = j + 1 ∧ litVal p.2 = i + 1)) ∧
      (∀ (i : Nat) (x : Atom), g.attrs? i = some x →
        (∀ v : Int, x.mass = some v ↔ ∃ w : Nat, (w : Int) = v ∧ (i + 1, "mass".toList, w) ∈ ast.valuedSettings) ∧
        (∀ v : Int, x.rad = some v ↔ ∃ w : Nat, (w : Int) = v ∧ (i + 1, "rad".toList, w) ∈ ast.valuedSettings) ∧
        x.chg = none ∧ x.x = none ∧ x.y = none ∧ x.zc = none) := by
  obtain ⟨toks, ast, st, hl, hp, h1, h2, h3, h4, hgood⟩ := graphFromTucan_state s g h
  have hs : Sentence toks ast := (parseTucan_iff toks ast).1 hp
  obtain ⟨o1, o2, o3⟩ := Acc.sentence_ok hs (Acc.lex_lit hl)
  have hv : ast.Valid := (Acc.listeners_char ast o1 o2 o3).1 ⟨st, h1, h2, h3, hgood⟩
  obtain ⟨g0, e0, hlab, hw, hsimp, hat, hadj⟩ := toGraph_spec st hgood
  rw [h4] at e0
  have hgg : g = g0 := Except.ok.inj e0
  subst hgg
  -- the atoms of the state are the expansion of the formula
  obtain ⟨f1, f2⟩ := Acc.listenFormula_char o1
  have hatoms : st.atoms = ast.formula.flatMap Acc.expand := by
    have := f1 (f2 _ h1)
    rw [h1] at this
    exact Except.ok.inj this
  have hlen : st.atoms.length = ast.atomCount := by
    rw [hatoms]; exact Acc.flatMap_expand_length _ o1
  have hfat : ∀ a ∈ sortAtomsByZ st.atoms, AstDen.FAt a := by
    intro a ha
    have : a ∈ st.atoms := (AstDen.sorted_perm st.atoms).mem_iff.1 ha
    rw [hatoms] at this
    exact AstDen.fat_of_mem this
  have hslen : (sortAtomsByZ st.atoms).length = st.atoms.length := PDen.sorted_length _
  -- what sits at index `i`
  have hnode : ∀ i (hi : i < (sortAtomsByZ st.atoms).length) (x : Atom), g.attrs? i = some x →
      ∃ (sy : Str) (z : Nat), elementZ sy = some z ∧ AstDen.symOf (sortAtomsByZ st.atoms)[i] = sy ∧
        x.sym = some sy ∧ x.z = some (z : Int) ∧ x.mass = (extraOf st i).mass ∧ x.rad = (extraOf st i).rad ∧
        x.chg = none ∧ x.x = none ∧ x.y = none ∧ x.zc = none := by
    intro i hi x hx
    obtain ⟨x', hx1, hx2⟩ := hat i (by rw [← hslen]; exact hi)
    rw [hx] at hx2
    have hxx : x = x' := Option.some.inj hx2
    subst hxx
    obtain ⟨sy, z, hz, ha⟩ := hfat _ (List.getElem_mem hi)
    unfold atomAt at hx1
    rw [List.getElem?_eq_getElem hi, Option.getD_some] at hx1
    have hsym : AstDen.symOf (sortAtomsByZ st.atoms)[i] = sy := by rw [ha]; rfl
    exact ⟨sy, z, hz, hsym, AstDen.out_fields ha (PDen.onlyMassRad_extraOf hgood _) hx1⟩
  refine ⟨toks, ast, hl, hs, hv, by rw [hlab, hlen], hw, hsimp, ?_, ?_, ?_⟩
  · refine ⟨(sortAtomsByZ st.atoms).map AstDen.symOf, ?_, ?_, ?_⟩
    · have := (AstDen.sorted_perm st.atoms).map AstDen.symOf
      rw [hatoms, AstDen.map_symOf_flatMap _ o1] at this
      rw [hatoms]
      exact this
    · rw [List.pairwise_map]
      refine List.Pairwise.imp_of_mem ?_ (AstDen.sorted_pairwise st.atoms)
      intro a b ha hb hab
      obtain ⟨sa, za, hza, rfl⟩ := hfat a ha
      obtain ⟨sb, zb, hzb, rfl⟩ := hfat b hb
      simp only [AstDen.symOf, Option.getD_some, hza, hzb] at hab ⊢
      omega
    · intro i hi
      have hi' : i < (sortAtomsByZ st.atoms).length := by rw [List.length_map] at hi; exact hi
      obtain ⟨x, _, hx2⟩ := hat i (by rw [← hslen]; exact hi')
      obtain ⟨sy, z, hz, hsym, hxs, hxz, _⟩ := hnode i hi' x hx2
      rw [List.getElem_map, hsym]
      exact ⟨x, z, hx2, hxs, hz, hxz⟩
  · intro i j
    rw [hadj i j]
    exact Respell.bonds_mem o2 _ h2 i j
  · intro i x hx
    have hi : i < (sortAtomsByZ st.atoms).length := by
      rw [hslen]
      apply Classical.byContradiction
      intro hn
      have : i ∉ g.labels := by rw [hlab, List.mem_range]; exact hn
      rw [AstDen.attrs?_none_of_not_mem this] at hx
      cases hx
    obtain ⟨sy, z, _, _, _, _, hm, hr, c1, c2, c3, c4⟩ := hnode i hi x hx
    have vinv := Respell.listenAttrs_val o3 _ h3
    refine ⟨?_, ?_, c1, c2, c3, c4⟩
    · intro v
      have := vinv (i + 1) _ (Or.inl rfl) v
      rw [Respell.recOf_succ, Respell.fieldOf_mass] at this
      rw [hm]
      exact this
    · intro v
      have := vinv (i + 1) _ (Or.inr rfl) v
      rw [Respell.recOf_succ, Respell.fieldOf_rad] at this
      rw [hr]
      exact this

end Tucan
