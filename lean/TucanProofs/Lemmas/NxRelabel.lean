import TucanProofs.Spec
/-!
# networkx container lemmas I: `copy`, `relabel_nodes(copy=True)`, `set_node_attributes`

Characterises the model's `Graph.copy`, `Graph.relabelCopy` and `Graph.mapAttrs` through the
listing-independent relation `Relabel`.  These are the only facts about the container that the
algorithm-level proofs use.
-/
namespace Tucan
open Graph

namespace NxRelabel

/-! ### generic list facts -/

theorem nodup_of_nodup_map {α β} (f : α → β) {l : List α} (h : (l.map f).Nodup) : l.Nodup := by
  induction l with
  | nil => exact List.nodup_nil
  | cons a r ih =>
    simp only [List.map_cons, List.nodup_cons, List.mem_map, not_exists, not_and] at h ⊢
    exact ⟨fun ha => h.1 a ha rfl, ih h.2⟩

theorem nodup_map_of_injOn {α β} (f : α → β) {l : List α} (h : l.Nodup)
    (hi : ∀ a ∈ l, ∀ b ∈ l, f a = f b → a = b) : (l.map f).Nodup := by
  induction l with
  | nil => exact List.nodup_nil
  | cons a r ih =>
    rw [List.nodup_cons] at h
    simp only [List.map_cons, List.nodup_cons, List.mem_map, not_exists, not_and]
    refine ⟨fun b hb hfb => ?_, ih h.2 (fun x hx y hy =>
      hi x (List.mem_cons_of_mem _ hx) y (List.mem_cons_of_mem _ hy))⟩
    have := hi b (List.mem_cons_of_mem _ hb) a List.mem_cons_self hfb
    exact h.1 (this ▸ hb)

/-! ### association lists -/

theorem mem_of_alookup {ν} {k : Nat} {v : ν} :
    ∀ {l : List (Nat × ν)}, alookup k l = some v → (k, v) ∈ l
  | [], h => by simp [alookup] at h
  | (k', v') :: r, h => by
    simp only [alookup] at h
    split at h
    · rename_i hk
      simp only [beq_iff_eq] at hk
      simp only [Option.some.injEq] at h
      subst hk; subst h; exact List.mem_cons_self
    · exact List.mem_cons_of_mem _ (mem_of_alookup h)

theorem mem_keys_ainsert {ν} (k : Nat) (v : ν) (y : Nat) : ∀ (l : List (Nat × ν)),
    (y ∈ (ainsert k v l).map (·.1) ↔ y = k ∨ y ∈ l.map (·.1))
  | [] => by simp [ainsert]
  | (k', v') :: r => by
    simp only [ainsert]
    split
    · rename_i hk
      simp only [beq_iff_eq] at hk
      subst hk
      simp
    · have ih := mem_keys_ainsert k v y r
      simp only [List.map_cons, List.mem_cons, ih]
      constructor
      · rintro (h | h | h)
        · exact Or.inr (Or.inl h)
        · exact Or.inl h
        · exact Or.inr (Or.inr h)
      · rintro (h | h | h)
        · exact Or.inr (Or.inl h)
        · exact Or.inl h
        · exact Or.inr (Or.inr h)

theorem nodup_keys_ainsert {ν} (k : Nat) (v : ν) : ∀ (l : List (Nat × ν)),
    (l.map (·.1)).Nodup → ((ainsert k v l).map (·.1)).Nodup
  | [], _ => by simp [ainsert]
  | (k', v') :: r, h => by
    simp only [ainsert]
    split
    · rename_i hk
      simp only [beq_iff_eq] at hk
      subst hk
      simpa using h
    · rename_i hk
      simp only [beq_iff_eq] at hk
      simp only [List.map_cons, List.nodup_cons] at h ⊢
      refine ⟨?_, nodup_keys_ainsert k v r h.2⟩
      rw [mem_keys_ainsert]
      rintro (h' | h')
      · exact hk h'
      · exact h.1 h'

theorem mem_ainsert {ν} (k : Nat) (v : ν) (y : Nat) (e : ν) : ∀ (l : List (Nat × ν)),
    (l.map (·.1)).Nodup →
    ((y, e) ∈ ainsert k v l ↔ (y = k ∧ e = v) ∨ (y ≠ k ∧ (y, e) ∈ l))
  | [], _ => by simp [ainsert]
  | (k', v') :: r, h => by
    simp only [List.map_cons, List.nodup_cons] at h
    simp only [ainsert]
    split
    · rename_i hk
      simp only [beq_iff_eq] at hk
      subst hk
      have hnot : (y, e) ∈ r → y ≠ k' := fun hm hy =>
        h.1 (hy ▸ List.mem_map_of_mem (f := (·.1)) hm)
      simp only [List.mem_cons, Prod.mk.injEq]
      constructor
      · rintro (h' | h')
        · exact Or.inl h'
        · exact Or.inr ⟨hnot h', Or.inr h'⟩
      · rintro (h' | ⟨h1, h' | h'⟩)
        · exact Or.inl h'
        · exact absurd h'.1 h1
        · exact Or.inr h'
    · rename_i hk
      simp only [beq_iff_eq] at hk
      have ih := mem_ainsert k v y e r h.2
      simp only [List.mem_cons, Prod.mk.injEq, ih]
      constructor
      · rintro (h' | h' | h')
        · exact Or.inr ⟨fun hy => hk (h'.1 ▸ hy), Or.inl h'⟩
        · exact Or.inl h'
        · exact Or.inr ⟨h'.1, Or.inr h'.2⟩
      · rintro (h' | ⟨h1, h' | h'⟩)
        · exact Or.inr (Or.inl h')
        · exact Or.inl h'
        · exact Or.inr (Or.inr ⟨h1, h'⟩)

theorem Bond.update_empty (d : Bond) : Bond.update {} d = d := by
  cases d with | mk b x => cases b <;> cases x <;> rfl

theorem Bond.update_self (d : Bond) : Bond.update d d = d := by
  cases d with | mk b x => cases b <;> cases x <;> rfl

/-! ### `find?`, `labels`, `nbrsD`, `attrs?` -/

theorem find?_some_id {g : Graph} {a : Nat} {n : Node} (h : g.find? a = some n) : n.id = a := by
  have := List.find?_some h
  simpa using this

theorem find?_some_mem {g : Graph} {a : Nat} {n : Node} (h : g.find? a = some n) : n ∈ g.nodes :=
  List.mem_of_find?_eq_some h

theorem find?_eq_none_iff {g : Graph} {a : Nat} : g.find? a = none ↔ a ∉ g.labels := by
  simp [Graph.find?, Graph.labels]

theorem mem_labels_of_find? {g : Graph} {a : Nat} {n : Node} (h : g.find? a = some n) :
    a ∈ g.labels := by
  have := find?_some_id h
  exact this ▸ List.mem_map_of_mem (f := (·.id)) (find?_some_mem h)

theorem list_find?_of_mem {n : Node} : ∀ {ns : List Node}, (ns.map (·.id)).Nodup → n ∈ ns →
    ns.find? (·.id == n.id) = some n
  | [], _, h => by simp at h
  | m :: r, hnd, h => by
    simp only [List.map_cons, List.nodup_cons] at hnd
    rw [List.find?_cons]
    rcases List.mem_cons.1 h with h | h
    · subst h; simp
    · have hne : m.id ≠ n.id := fun he =>
        hnd.1 (he ▸ List.mem_map_of_mem (f := (·.id)) h)
      have : (m.id == n.id) = false := by simpa using hne
      simp only [this]
      exact list_find?_of_mem hnd.2 h

theorem find?_of_mem {g : Graph} {n : Node} (hnd : g.labels.Nodup) (hn : n ∈ g.nodes) :
    g.find? n.id = some n :=
  list_find?_of_mem hnd hn

theorem node_ext_of_id {g : Graph} {n m : Node} (hnd : g.labels.Nodup) (hn : n ∈ g.nodes)
    (hm : m ∈ g.nodes) (h : n.id = m.id) : n = m := by
  have h1 := find?_of_mem hnd hn
  have h2 := find?_of_mem hnd hm
  rw [h, h2] at h1
  exact (Option.some.inj h1).symm

theorem hasNode_iff {g : Graph} {a : Nat} : g.hasNode a = true ↔ a ∈ g.labels := by
  simp [Graph.hasNode, Graph.find?, Graph.labels]

theorem mem_nbrsD {g : Graph} {x y : Nat} {e : Bond} (h : (y, e) ∈ g.nbrsD x) :
    ∃ n ∈ g.nodes, n.id = x ∧ (y, e) ∈ n.nbrs := by
  unfold Graph.nbrsD at h
  split at h
  · rename_i n hf
    exact ⟨n, find?_some_mem hf, find?_some_id hf, h⟩
  · simp at h

theorem nbrsD_of_mem {g : Graph} {n : Node} (hnd : g.labels.Nodup) (hn : n ∈ g.nodes) :
    g.nbrsD n.id = n.nbrs := by
  unfold Graph.nbrsD
  rw [find?_of_mem hnd hn]

theorem attrs?_of_mem {g : Graph} {n : Node} (hnd : g.labels.Nodup) (hn : n ∈ g.nodes) :
    g.attrs? n.id = some n.attrs := by
  unfold Graph.attrs?
  rw [find?_of_mem hnd hn]; rfl

theorem mem_labels_of_mem_nbrsD {g : Graph} {x y : Nat} {e : Bond} (h : (y, e) ∈ g.nbrsD x) :
    x ∈ g.labels := by
  obtain ⟨n, hn, hid, _⟩ := mem_nbrsD h
  exact hid ▸ List.mem_map_of_mem (f := (·.id)) hn

theorem nbrsD_of_not_mem {g : Graph} {x : Nat} (h : x ∉ g.labels) : g.nbrsD x = [] := by
  unfold Graph.nbrsD
  rw [find?_eq_none_iff.2 h]

theorem exists_node_of_mem_labels {g : Graph} {a : Nat} (h : a ∈ g.labels) :
    ∃ n ∈ g.nodes, n.id = a := by
  simpa [Graph.labels] using h

theorem edgeData?_eq (g : Graph) (u v : Nat) : g.edgeData? u v = alookup v (g.nbrsD u) := by
  unfold Graph.edgeData? Graph.nbrsD
  cases g.find? u <;> rfl

/-! ### `modifyNode` and its instances -/

theorem find?_modifyNode (g : Graph) (a : Nat) (F : Node → Node) (hF : ∀ n, (F n).id = n.id)
    (x : Nat) :
    (g.modifyNode a F).find? x = (g.find? x).map (fun n => if n.id == a then F n else n) := by
  unfold Graph.modifyNode Graph.find?
  rw [List.find?_map]
  have : ((fun n : Node => n.id == x) ∘ fun n => if n.id == a then F n else n)
      = fun n : Node => n.id == x := by
    funext n
    simp only [Function.comp]
    split <;> simp [hF]
  rw [this]

theorem labels_modifyNode (g : Graph) (a : Nat) (F : Node → Node) (hF : ∀ n, (F n).id = n.id) :
    (g.modifyNode a F).labels = g.labels := by
  unfold Graph.modifyNode Graph.labels
  rw [List.map_map]
  apply List.map_congr_left
  intro n _
  simp only [Function.comp]
  split <;> simp [hF]

theorem labels_setNbr (g : Graph) (u v : Nat) (d : Bond) : (g.setNbr u v d).labels = g.labels :=
  labels_modifyNode g u _ (fun _ => rfl)

theorem labels_setAttrs (g : Graph) (u : Nat) (d : Atom) : (g.setAttrs u d).labels = g.labels :=
  labels_modifyNode g u _ (fun _ => rfl)

theorem nbrsD_setNbr (g : Graph) (u v : Nat) (d : Bond) (x : Nat) :
    (g.setNbr u v d).nbrsD x
      = if x = u ∧ u ∈ g.labels then ainsert v d (g.nbrsD u) else g.nbrsD x := by
  have key := find?_modifyNode g u (fun n => { n with nbrs := ainsert v d n.nbrs }) (fun _ => rfl) x
  unfold Graph.setNbr
  unfold Graph.nbrsD
  rw [key]
  cases hf : g.find? x with
  | none =>
    have hx := find?_eq_none_iff.1 hf
    have : ¬ (x = u ∧ u ∈ g.labels) := fun h => hx (h.1 ▸ h.2)
    simp [this]
  | some n =>
    have hid := find?_some_id hf
    by_cases hxu : x = u
    · subst hxu
      have hm := mem_labels_of_find? hf
      simp [hm, hid, hf]
    · have : ¬ (x = u ∧ u ∈ g.labels) := fun h => hxu h.1
      have hne : ¬ n.id = u := hid ▸ hxu
      simp [this, hne]

theorem attrs?_setNbr (g : Graph) (u v : Nat) (d : Bond) (x : Nat) :
    (g.setNbr u v d).attrs? x = g.attrs? x := by
  have key := find?_modifyNode g u (fun n => { n with nbrs := ainsert v d n.nbrs }) (fun _ => rfl) x
  unfold Graph.setNbr Graph.attrs?
  rw [key]
  cases g.find? x with
  | none => rfl
  | some n =>
    simp only [Option.map_some]
    split <;> rfl

theorem nbrsD_setAttrs (g : Graph) (u : Nat) (d : Atom) (x : Nat) :
    (g.setAttrs u d).nbrsD x = g.nbrsD x := by
  have key := find?_modifyNode g u (fun n => { n with attrs := d }) (fun _ => rfl) x
  unfold Graph.setAttrs Graph.nbrsD
  rw [key]
  cases g.find? x with
  | none => rfl
  | some n =>
    simp only [Option.map_some]
    split <;> rfl

theorem attrs?_setAttrs (g : Graph) (u : Nat) (d : Atom) (x : Nat) :
    (g.setAttrs u d).attrs? x
      = if x = u then (g.attrs? u).map (fun _ => d) else g.attrs? x := by
  have key := find?_modifyNode g u (fun n => { n with attrs := d }) (fun _ => rfl) x
  unfold Graph.setAttrs Graph.attrs?
  rw [key]
  cases hf : g.find? x with
  | none =>
    by_cases hxu : x = u
    · subst hxu; simp [hf]
    · simp [hxu]
  | some n =>
    have hid := find?_some_id hf
    by_cases hxu : x = u
    · subst hxu; simp [hid, hf]
    · have hne : ¬ n.id = u := hid ▸ hxu
      simp [hxu, hne]

theorem addNode_of_mem {g : Graph} {a : Nat} (h : a ∈ g.labels) : g.addNode a = g := by
  unfold Graph.addNode
  rw [hasNode_iff.2 h]; rfl

/-! ### one `addEdge` between two existing, distinct nodes -/

theorem addEdge_entries (h : Graph) (a b : Nat) (d : Bond) (ha : a ∈ h.labels) (hb : b ∈ h.labels)
    (hab : a ≠ b) (hnd : ∀ x, ((h.nbrsD x).map (·.1)).Nodup)
    (h1 : ∀ e, (b, e) ∈ h.nbrsD a → e = d) (h2 : ∀ e, (a, e) ∈ h.nbrsD b → e = d) :
    (h.addEdge a b d).labels = h.labels ∧
    (∀ x, (h.addEdge a b d).attrs? x = h.attrs? x) ∧
    (∀ x, (((h.addEdge a b d).nbrsD x).map (·.1)).Nodup) ∧
    (∀ x y e, (y, e) ∈ (h.addEdge a b d).nbrsD x ↔
      (y, e) ∈ h.nbrsD x ∨ (x = a ∧ y = b ∧ e = d) ∨ (x = b ∧ y = a ∧ e = d)) := by
  have hdd : ((h.edgeData? a b).getD {}).update d = d := by
    rw [edgeData?_eq]
    cases hl : alookup b (h.nbrsD a) with
    | none => exact Bond.update_empty d
    | some e =>
      have := h1 e (mem_of_alookup hl)
      subst this; exact Bond.update_self _
  have heq : h.addEdge a b d = (h.setNbr a b d).setNbr b a d := by
    simp only [Graph.addEdge, addNode_of_mem ha, addNode_of_mem hb, hdd]
  rw [heq]
  have hb' : b ∈ (h.setNbr a b d).labels := by rw [labels_setNbr]; exact hb
  have hN1 : ∀ x, (h.setNbr a b d).nbrsD x
      = if x = a then ainsert b d (h.nbrsD a) else h.nbrsD x := by
    intro x; rw [nbrsD_setNbr]; simp [ha]
  have hN2 : ∀ x, ((h.setNbr a b d).setNbr b a d).nbrsD x
      = if x = b then ainsert a d (h.nbrsD b)
        else if x = a then ainsert b d (h.nbrsD a) else h.nbrsD x := by
    intro x
    rw [nbrsD_setNbr]
    by_cases hxb : x = b
    · have hba : ¬ b = a := fun h => hab h.symm
      simp [hxb, hb', hN1, hba]
    · simp [hxb, hN1]
  refine ⟨by rw [labels_setNbr, labels_setNbr],
    fun x => by rw [attrs?_setNbr, attrs?_setNbr], ?_, ?_⟩
  · intro x
    rw [hN2]
    split
    · exact nodup_keys_ainsert _ _ _ (hnd b)
    · split
      · exact nodup_keys_ainsert _ _ _ (hnd a)
      · exact hnd x
  · intro x y e
    rw [hN2]
    by_cases hxb : x = b
    · rw [if_pos hxb, mem_ainsert _ _ _ _ _ (hnd b)]
      subst hxb
      constructor
      · rintro (h' | h')
        · exact Or.inr (Or.inr ⟨rfl, h'⟩)
        · exact Or.inl h'.2
      · rintro (h' | h' | h')
        · by_cases hya : y = a
          · subst hya; exact Or.inl ⟨rfl, h2 e h'⟩
          · exact Or.inr ⟨hya, h'⟩
        · exact absurd h'.1.symm hab
        · exact Or.inl h'.2
    · rw [if_neg hxb]
      by_cases hxa : x = a
      · rw [if_pos hxa, mem_ainsert _ _ _ _ _ (hnd a)]
        subst hxa
        constructor
        · rintro (h' | h')
          · exact Or.inr (Or.inl ⟨rfl, h'⟩)
          · exact Or.inl h'.2
        · rintro (h' | h' | h')
          · by_cases hyb : y = b
            · subst hyb; exact Or.inl ⟨rfl, h1 e h'⟩
            · exact Or.inr ⟨hyb, h'⟩
          · exact Or.inl h'.2
          · exact absurd h'.1 hxb
      · rw [if_neg hxa]
        constructor
        · exact Or.inl
        · rintro (h' | h' | h')
          · exact h'
          · exact absurd h'.1 hxa
          · exact absurd h'.1 hxb

/-! ### facts about entries of a well-formed graph -/

theorem assoc_unique {ν} {k : Nat} {v v' : ν} : ∀ {l : List (Nat × ν)}, (l.map (·.1)).Nodup →
    (k, v) ∈ l → (k, v') ∈ l → v = v'
  | [], _, h, _ => by simp at h
  | (k0, v0) :: r, hnd, h, h' => by
    simp only [List.map_cons, List.nodup_cons] at hnd
    have hk : ∀ {w : ν}, (k, w) ∈ r → k0 ≠ k := fun hm he =>
      hnd.1 (he ▸ List.mem_map_of_mem (f := (·.1)) hm)
    rcases List.mem_cons.1 h with h | h <;> rcases List.mem_cons.1 h' with h' | h'
    · simp only [Prod.mk.injEq] at h h'
      exact h.2.trans h'.2.symm
    · simp only [Prod.mk.injEq] at h
      exact absurd h.1.symm (hk h')
    · simp only [Prod.mk.injEq] at h'
      exact absurd h'.1.symm (hk h)
    · exact assoc_unique hnd.2 h h'

theorem wf_keysNodup {g : Graph} (hw : g.WF) (x : Nat) : ((g.nbrsD x).map (·.1)).Nodup := by
  unfold Graph.nbrsD
  split
  · rename_i n hf
    exact hw.nbrNodup n (find?_some_mem hf)
  · exact List.nodup_nil

theorem wf_entry_closed {g : Graph} (hw : g.WF) {x y : Nat} {e : Bond} (h : (y, e) ∈ g.nbrsD x) :
    x ∈ g.labels ∧ y ∈ g.labels := by
  refine ⟨mem_labels_of_mem_nbrsD h, ?_⟩
  obtain ⟨n, hn, _, hm⟩ := mem_nbrsD h
  exact hw.closed n hn _ hm

theorem wf_entry_symm {g : Graph} (hw : g.WF) {x y : Nat} {e : Bond} (h : (y, e) ∈ g.nbrsD x) :
    (x, e) ∈ g.nbrsD y := by
  obtain ⟨n, hn, hid, hm⟩ := mem_nbrsD h
  have := hw.symm n hn _ hm
  rw [hid] at this
  exact this

theorem wf_entry_unique {g : Graph} (hw : g.WF) {x y : Nat} {e e' : Bond}
    (h : (y, e) ∈ g.nbrsD x) (h' : (y, e') ∈ g.nbrsD x) : e = e' :=
  assoc_unique (wf_keysNodup hw x) h h'

theorem simple_entry_ne {g : Graph} (hs : g.Simple) {x y : Nat} {e : Bond}
    (h : (y, e) ∈ g.nbrsD x) : y ≠ x := by
  obtain ⟨n, hn, hid, hm⟩ := mem_nbrsD h
  have := hs n hn _ hm
  rw [hid] at this
  exact this

/-! ### the invariant of the edge-insertion fold -/

structure EInv (f : Nat → Nat) (g h : Graph) : Prop where
  labels : h.labels = g.labels.map f
  attrs : ∀ n ∈ g.nodes, h.attrs? (f n.id) = some n.attrs
  nodupK : ∀ x, ((h.nbrsD x).map (·.1)).Nodup
  sound : ∀ x' y' e, (y', e) ∈ h.nbrsD x' → ∃ x y, x' = f x ∧ y' = f y ∧ (y, e) ∈ g.nbrsD x

theorem EInv.step {f : Nat → Nat} {g h : Graph} (hw : g.WF) (hs : g.Simple)
    (hinj : ∀ a ∈ g.labels, ∀ b ∈ g.labels, f a = f b → a = b) (I : EInv f g h)
    {u v : Nat} {d : Bond} (huv : (v, d) ∈ g.nbrsD u) :
    EInv f g (h.addEdge (f u) (f v) d) ∧
    ∀ x y e, (y, e) ∈ (h.addEdge (f u) (f v) d).nbrsD x ↔
      (y, e) ∈ h.nbrsD x ∨ (x = f u ∧ y = f v ∧ e = d) ∨ (x = f v ∧ y = f u ∧ e = d) := by
  obtain ⟨hu, hv⟩ := wf_entry_closed hw huv
  have hvu := wf_entry_symm hw huv
  have ha : f u ∈ h.labels := I.labels ▸ List.mem_map_of_mem hu
  have hb : f v ∈ h.labels := I.labels ▸ List.mem_map_of_mem hv
  have hab : f u ≠ f v := fun he => simple_entry_ne hs huv (hinj u hu v hv he).symm
  have h1 : ∀ e, (f v, e) ∈ h.nbrsD (f u) → e = d := by
    intro e he
    obtain ⟨x, y, hx, hy, hm⟩ := I.sound _ _ _ he
    obtain ⟨hxl, hyl⟩ := wf_entry_closed hw hm
    have := hinj u hu x hxl hx; subst this
    have := hinj v hv y hyl hy; subst this
    exact wf_entry_unique hw hm huv
  have h2 : ∀ e, (f u, e) ∈ h.nbrsD (f v) → e = d := by
    intro e he
    obtain ⟨x, y, hx, hy, hm⟩ := I.sound _ _ _ he
    obtain ⟨hxl, hyl⟩ := wf_entry_closed hw hm
    have := hinj v hv x hxl hx; subst this
    have := hinj u hu y hyl hy; subst this
    exact wf_entry_unique hw hm hvu
  obtain ⟨hl, hat, hn, hm⟩ := addEdge_entries h (f u) (f v) d ha hb hab I.nodupK h1 h2
  refine ⟨⟨hl.trans I.labels, fun n hnn => (hat _).trans (I.attrs n hnn), hn, ?_⟩, hm⟩
  intro x' y' e he
  rcases (hm x' y' e).1 he with he | ⟨hx, hy, hed⟩ | ⟨hx, hy, hed⟩
  · exact I.sound _ _ _ he
  · exact ⟨u, v, hx, hy, hed ▸ huv⟩
  · exact ⟨v, u, hx, hy, hed ▸ hvu⟩

theorem EInv.fold {f : Nat → Nat} {g : Graph} (hw : g.WF) (hs : g.Simple)
    (hinj : ∀ a ∈ g.labels, ∀ b ∈ g.labels, f a = f b → a = b) :
    ∀ (L : List (Nat × Nat × Bond)) (h : Graph), EInv f g h →
      (∀ t ∈ L, (t.2.1, t.2.2) ∈ g.nbrsD t.1) →
      EInv f g (L.foldl (fun h (u, v, d) => h.addEdge (f u) (f v) d) h) ∧
      (∀ x y e, (y, e) ∈ h.nbrsD x →
        (y, e) ∈ (L.foldl (fun h (u, v, d) => h.addEdge (f u) (f v) d) h).nbrsD x) ∧
      (∀ t ∈ L,
        (f t.2.1, t.2.2) ∈ (L.foldl (fun h (u, v, d) => h.addEdge (f u) (f v) d) h).nbrsD (f t.1) ∧
        (f t.1, t.2.2) ∈ (L.foldl (fun h (u, v, d) => h.addEdge (f u) (f v) d) h).nbrsD (f t.2.1))
  | [], h, I, _ => ⟨I, fun _ _ _ hm => hm, fun _ ht => by simp at ht⟩
  | (u, v, d) :: r, h, I, hL => by
    have huv : (v, d) ∈ g.nbrsD u := hL (u, v, d) List.mem_cons_self
    obtain ⟨I1, hm1⟩ := EInv.step hw hs hinj I huv
    obtain ⟨I2, mono, compl⟩ := EInv.fold hw hs hinj r (h.addEdge (f u) (f v) d) I1
      (fun t ht => hL t (List.mem_cons_of_mem _ ht))
    simp only [List.foldl_cons]
    refine ⟨I2, fun x y e hm => mono _ _ _ ((hm1 x y e).2 (Or.inl hm)), ?_⟩
    intro t ht
    rcases List.mem_cons.1 ht with ht | ht
    · subst ht
      exact ⟨mono _ _ _ ((hm1 _ _ _).2 (Or.inr (Or.inl ⟨rfl, rfl, rfl⟩))),
        mono _ _ _ ((hm1 _ _ _).2 (Or.inr (Or.inr ⟨rfl, rfl, rfl⟩)))⟩
    · exact compl t ht

theorem relabel_of_fold {f : Nat → Nat} {g : Graph} (hw : g.WF) (hs : g.Simple)
    (hinj : ∀ a ∈ g.labels, ∀ b ∈ g.labels, f a = f b → a = b)
    (h0 : Graph) (I0 : EInv f g h0) (L : List (Nat × Nat × Bond))
    (hL1 : ∀ t ∈ L, (t.2.1, t.2.2) ∈ g.nbrsD t.1)
    (hL2 : ∀ x y e, (y, e) ∈ g.nbrsD x → (x, y, e) ∈ L ∨ (y, x, e) ∈ L)
    (h : Graph) (hh : h = L.foldl (fun h (u, v, d) => h.addEdge (f u) (f v) d) h0) :
    Relabel f g h ∧ h.WF ∧ h.Simple ∧ h.labels = g.labels.map f := by
  obtain ⟨I, _, compl0⟩ := EInv.fold hw hs hinj L h0 I0 hL1
  rw [← hh] at I compl0
  have compl : ∀ x y e, (y, e) ∈ g.nbrsD x → (f y, e) ∈ h.nbrsD (f x) := by
    intro x y e hm
    rcases hL2 x y e hm with ht | ht
    · exact (compl0 _ ht).1
    · exact (compl0 _ ht).2
  have hnd : h.labels.Nodup := I.labels ▸ nodup_map_of_injOn f hw.nodup hinj
  refine ⟨⟨?_, hinj, ?_, ?_⟩, ⟨hnd, ?_, ?_, ?_⟩, ?_, I.labels⟩
  · rw [I.labels]
  · intro a ha
    obtain ⟨n, hn, hid⟩ := exists_node_of_mem_labels ha
    subst hid
    rw [I.attrs n hn, attrs?_of_mem hw.nodup hn]
  · intro a ha
    have nd1 : (h.nbrsD (f a)).Nodup := nodup_of_nodup_map _ (I.nodupK (f a))
    have nd2 : ((g.nbrsD a).map fun e => (f e.1, e.2)).Nodup := by
      apply nodup_map_of_injOn _ (nodup_of_nodup_map _ (wf_keysNodup hw a))
      intro p hp q hq hpq
      simp only [Prod.mk.injEq] at hpq
      have hp' := (wf_entry_closed hw (x := a) (y := p.1) (e := p.2) hp).2
      have hq' := (wf_entry_closed hw (x := a) (y := q.1) (e := q.2) hq).2
      exact Prod.ext (hinj _ hp' _ hq' hpq.1) hpq.2
    rw [List.perm_ext_iff_of_nodup nd1 nd2]
    rintro ⟨y', e⟩
    constructor
    · intro hm
      obtain ⟨x, y, hx, hy, hm'⟩ := I.sound _ _ _ hm
      have := hinj a ha x (wf_entry_closed hw hm').1 hx
      subst this
      exact List.mem_map.2 ⟨(y, e), hm', by simp [hy]⟩
    · intro hm
      obtain ⟨⟨y, e'⟩, hm', heq⟩ := List.mem_map.1 hm
      simp only [Prod.mk.injEq] at heq
      rw [← heq.1, ← heq.2]
      exact compl _ _ _ hm'
  · intro n hn
    rw [← nbrsD_of_mem hnd hn]
    exact I.nodupK n.id
  · intro n hn e he
    have he' : (e.1, e.2) ∈ h.nbrsD n.id := by rw [nbrsD_of_mem hnd hn]; exact he
    obtain ⟨x, y, _, hy, hm⟩ := I.sound _ _ _ he'
    rw [I.labels, hy]
    exact List.mem_map_of_mem (wf_entry_closed hw hm).2
  · intro n hn e he
    have he' : (e.1, e.2) ∈ h.nbrsD n.id := by rw [nbrsD_of_mem hnd hn]; exact he
    obtain ⟨x, y, hx, hy, hm⟩ := I.sound _ _ _ he'
    rw [hx, hy]
    exact compl _ _ _ (wf_entry_symm hw hm)
  · intro n hn e he
    have he' : (e.1, e.2) ∈ h.nbrsD n.id := by rw [nbrsD_of_mem hnd hn]; exact he
    obtain ⟨x, y, hx, hy, hm⟩ := I.sound _ _ _ he'
    rw [hx, hy]
    obtain ⟨hxl, hyl⟩ := wf_entry_closed hw hm
    exact fun hf => simple_entry_ne hs hm (hinj y hyl x hxl hf)

/-! ### `edges` reports every adjacency entry from exactly one side -/

theorem mem_edgesGo_sound : ∀ (ns : List Node) (seen : List Nat) {u v : Nat} {d : Bond},
    (u, v, d) ∈ Graph.edgesGo ns seen → ∃ n ∈ ns, n.id = u ∧ (v, d) ∈ n.nbrs
  | [], _, _, _, _, h => by simp [Graph.edgesGo] at h
  | n :: r, seen, u, v, d, h => by
    simp only [Graph.edgesGo, List.mem_append, List.mem_filterMap] at h
    rcases h with ⟨⟨v', d'⟩, hm, hh⟩ | h
    · simp only [List.contains_eq_mem, decide_eq_true_eq, Option.ite_none_left_eq_some,
        Option.some.injEq, Prod.mk.injEq] at hh
      obtain ⟨_, h1, h2, h3⟩ := hh
      subst h1 h2 h3
      exact ⟨n, List.mem_cons_self, rfl, hm⟩
    · obtain ⟨n', hn', h'⟩ := mem_edgesGo_sound r _ h
      exact ⟨n', List.mem_cons_of_mem _ hn', h'⟩

theorem mem_edgesGo_of : ∀ (pre : List Node) (n : Node) (post : List Node) (seen : List Nat)
    {v : Nat} {d : Bond}, (v, d) ∈ n.nbrs → v ∉ seen → v ∉ pre.map (·.id) →
    (n.id, v, d) ∈ Graph.edgesGo (pre ++ n :: post) seen
  | [], n, post, seen, v, d, hm, hs, _ => by
    simp only [List.nil_append, Graph.edgesGo, List.mem_append, List.mem_filterMap]
    refine Or.inl ⟨(v, d), hm, ?_⟩
    simp [hs]
  | p :: pre, n, post, seen, v, d, hm, hs, hp => by
    simp only [List.cons_append, Graph.edgesGo, List.mem_append]
    simp only [List.map_cons, List.mem_cons, not_or] at hp
    refine Or.inr (mem_edgesGo_of pre n post (p.id :: seen) hm ?_ hp.2)
    simp only [List.mem_cons, not_or]
    exact ⟨hp.1, hs⟩

theorem mem_edges_sound {g : Graph} (hw : g.WF) {u v : Nat} {d : Bond}
    (h : (u, v, d) ∈ g.edges) : (v, d) ∈ g.nbrsD u := by
  obtain ⟨n, hn, hid, hm⟩ := mem_edgesGo_sound _ _ h
  rw [← hid, nbrsD_of_mem hw.nodup hn]
  exact hm

theorem mem_edges_complete {g : Graph} (hw : g.WF) {u v : Nat} {d : Bond}
    (h : (v, d) ∈ g.nbrsD u) : (u, v, d) ∈ g.edges ∨ (v, u, d) ∈ g.edges := by
  obtain ⟨nu, hnu, hid, hm⟩ := mem_nbrsD h
  obtain ⟨pre, post, hsplit⟩ := List.append_of_mem hnu
  by_cases hv : v ∈ pre.map (·.id)
  · right
    obtain ⟨nv, hnv, hidv⟩ := List.mem_map.1 hv
    have hnv' : nv ∈ g.nodes := by rw [hsplit]; exact List.mem_append_left _ hnv
    have hm' : (u, d) ∈ nv.nbrs := by
      have := wf_entry_symm hw h
      rw [← hidv, nbrsD_of_mem hw.nodup hnv'] at this
      exact this
    obtain ⟨pre', post', hsplit'⟩ := List.append_of_mem hnv
    have hnd := hw.nodup
    unfold Graph.labels at hnd
    rw [hsplit, hsplit'] at hnd
    have hu : u ∉ pre'.map (·.id) := by
      intro hu
      simp only [List.map_append, List.map_cons, List.nodup_append] at hnd
      exact hnd.2.2 u (List.mem_append_left _ hu) u (hid ▸ List.mem_cons_self) rfl
    have := mem_edgesGo_of pre' nv (post' ++ nu :: post) [] hm' List.not_mem_nil hu
    unfold Graph.edges
    rw [hsplit, hsplit', List.append_assoc, List.cons_append, ← hidv]
    exact this
  · left
    have := mem_edgesGo_of pre nu post [] hm List.not_mem_nil hv
    unfold Graph.edges
    rw [hsplit, ← hid]
    exact this

/-! ### the node-insertion phases -/

theorem hasNode_eq_false {g : Graph} {a : Nat} (h : a ∉ g.labels) : g.hasNode a = false := by
  cases hb : g.hasNode a with
  | false => rfl
  | true => exact absurd (hasNode_iff.1 hb) h

theorem foldl_append_nodes (step : Graph → Node → Graph) (mk : Node → Node) (key : Node → Nat)
    (hmk : ∀ n, (mk n).id = key n)
    (hstep : ∀ h n, key n ∉ h.labels → step h n = ⟨h.nodes ++ [mk n]⟩) :
    ∀ (ns : List Node) (h : Graph), (ns.map key).Nodup → (∀ n ∈ ns, key n ∉ h.labels) →
      ns.foldl step h = ⟨h.nodes ++ ns.map mk⟩
  | [], h, _, _ => by simp
  | n :: r, h, hnd, hdis => by
    simp only [List.map_cons, List.nodup_cons] at hnd
    simp only [List.foldl_cons]
    rw [hstep h n (hdis n List.mem_cons_self)]
    rw [foldl_append_nodes step mk key hmk hstep r ⟨h.nodes ++ [mk n]⟩ hnd.2]
    · simp
    · intro m hm
      simp only [Graph.labels, List.map_append, List.map_cons, List.map_nil, List.mem_append,
        List.mem_singleton, not_or, hmk]
      refine ⟨hdis m (List.mem_cons_of_mem _ hm), fun he => hnd.1 ?_⟩
      rw [← he]
      exact List.mem_map_of_mem hm

theorem nbrsD_eq_nil_of {g : Graph} (h : ∀ n ∈ g.nodes, n.nbrs = []) (x : Nat) :
    g.nbrsD x = [] := by
  unfold Graph.nbrsD
  split
  · rename_i n hf
    exact h n (find?_some_mem hf)
  · rfl

theorem attrs?_isSome_of_mem {g : Graph} {a : Nat} (h : a ∈ g.labels) :
    ∃ t, g.attrs? a = some t := by
  unfold Graph.attrs?
  cases hf : g.find? a with
  | none => exact absurd h (find?_eq_none_iff.1 hf)
  | some n => exact ⟨n.attrs, rfl⟩

theorem foldl_setAttrs (f : Nat → Nat) : ∀ (ns : List Node) (h : Graph),
    (ns.map (fun n => f n.id)).Nodup → (∀ n ∈ ns, f n.id ∈ h.labels) →
    (ns.foldl (fun h n => h.setAttrs (f n.id) n.attrs) h).labels = h.labels ∧
    (∀ x, (ns.foldl (fun h n => h.setAttrs (f n.id) n.attrs) h).nbrsD x = h.nbrsD x) ∧
    (∀ n ∈ ns, (ns.foldl (fun h n => h.setAttrs (f n.id) n.attrs) h).attrs? (f n.id)
      = some n.attrs) ∧
    (∀ x, x ∉ ns.map (fun n => f n.id) →
      (ns.foldl (fun h n => h.setAttrs (f n.id) n.attrs) h).attrs? x = h.attrs? x)
  | [], h, _, _ => ⟨rfl, fun _ => rfl, fun _ hn => by simp at hn, fun _ _ => rfl⟩
  | n :: r, h, hnd, hmem => by
    simp only [List.map_cons, List.nodup_cons] at hnd
    simp only [List.foldl_cons]
    obtain ⟨i1, i2, i3, i4⟩ := foldl_setAttrs f r (h.setAttrs (f n.id) n.attrs) hnd.2
      (fun m hm => by rw [labels_setAttrs]; exact hmem m (List.mem_cons_of_mem _ hm))
    refine ⟨i1.trans (labels_setAttrs _ _ _), fun x => (i2 x).trans (nbrsD_setAttrs _ _ _ _),
      ?_, ?_⟩
    · intro m hm
      rcases List.mem_cons.1 hm with hm | hm
      · subst hm
        rw [i4 _ hnd.1, attrs?_setAttrs, if_pos rfl]
        obtain ⟨t, ht⟩ := attrs?_isSome_of_mem (hmem m List.mem_cons_self)
        rw [ht]; rfl
      · exact i3 m hm
    · intro x hx
      simp only [List.map_cons, List.mem_cons, not_or] at hx
      rw [i4 x hx.2, attrs?_setAttrs, if_neg hx.1]

theorem find?_mapAttrs (g : Graph) (F : Nat → Atom → Atom) (a : Nat) :
    (g.mapAttrs F).find? a = (g.find? a).map (fun n => { n with attrs := F n.id n.attrs }) := by
  unfold Graph.mapAttrs Graph.find?
  rw [List.find?_map]
  rfl

theorem mem_mapAttrs {g : Graph} {F : Nat → Atom → Atom} {n : Node}
    (h : n ∈ (g.mapAttrs F).nodes) :
    ∃ n0 ∈ g.nodes, n.id = n0.id ∧ n.nbrs = n0.nbrs := by
  unfold Graph.mapAttrs at h
  obtain ⟨n0, hn0, rfl⟩ := List.mem_map.1 h
  exact ⟨n0, hn0, rfl, rfl⟩

end NxRelabel
open NxRelabel

/-- `set_node_attributes` touches nothing but the attribute dictionaries -/
theorem Graph.mapAttrs_spec (g : Graph) (F : Nat → Atom → Atom) :
    (g.mapAttrs F).labels = g.labels ∧
    (∀ a, (g.mapAttrs F).nbrsD a = g.nbrsD a) ∧
    (∀ a, (g.mapAttrs F).attrs? a = (g.attrs? a).map (F a)) ∧
    (g.WF → (g.mapAttrs F).WF) ∧ (g.Simple → (g.mapAttrs F).Simple) := by
  have hL : (g.mapAttrs F).labels = g.labels := by
    unfold Graph.mapAttrs Graph.labels
    rw [List.map_map]
    rfl
  have hN : ∀ a, (g.mapAttrs F).nbrsD a = g.nbrsD a := by
    intro a
    unfold Graph.nbrsD
    rw [find?_mapAttrs]
    cases g.find? a <;> rfl
  refine ⟨hL, hN, ?_, ?_, ?_⟩
  · intro a
    unfold Graph.attrs?
    rw [find?_mapAttrs]
    cases hf : g.find? a with
    | none => rfl
    | some n =>
      have := find?_some_id hf
      subst this
      rfl
  · intro hw
    refine ⟨hL ▸ hw.nodup, ?_, ?_, ?_⟩
    · intro n hn
      obtain ⟨n0, hn0, _, hnb⟩ := mem_mapAttrs hn
      rw [hnb]; exact hw.nbrNodup n0 hn0
    · intro n hn e he
      obtain ⟨n0, hn0, _, hnb⟩ := mem_mapAttrs hn
      rw [hL]; exact hw.closed n0 hn0 e (hnb ▸ he)
    · intro n hn e he
      obtain ⟨n0, hn0, hid, hnb⟩ := mem_mapAttrs hn
      rw [hN, hid]; exact hw.symm n0 hn0 e (hnb ▸ he)
  · intro hs n hn e he
    obtain ⟨n0, hn0, hid, hnb⟩ := mem_mapAttrs hn
    rw [hid]; exact hs n0 hn0 e (hnb ▸ he)

/-- `G.copy()` is the same graph; only the order inside neighbour lists may change -/
theorem Graph.copy_spec (g : Graph) (hw : g.WF) (hs : g.Simple) :
    Relabel id g g.copy ∧ g.copy.WF ∧ g.copy.Simple ∧ g.copy.labels = g.labels := by
  have hinj : ∀ a ∈ g.labels, ∀ b ∈ g.labels, id a = id b → a = b := fun _ _ _ _ h => h
  -- phase 1: the nodes
  have h0eq : g.nodes.foldl (fun h n => h.addNodeWith n.id n.attrs) Graph.empty
      = ⟨g.nodes.map fun n => ⟨n.id, n.attrs, []⟩⟩ := by
    rw [foldl_append_nodes (fun h n => h.addNodeWith n.id n.attrs) (fun n => ⟨n.id, n.attrs, []⟩)
      (fun n => n.id) (fun _ => rfl) ?_ g.nodes Graph.empty hw.nodup
      (fun _ _ => by simp [Graph.empty, Graph.labels])]
    · simp [Graph.empty]
    · intro h n hn
      simp only [Graph.addNodeWith, hasNode_eq_false hn]
      rfl
  have hlab : (⟨g.nodes.map fun n => ⟨n.id, n.attrs, []⟩⟩ : Graph).labels = g.labels := by
    simp only [Graph.labels, List.map_map]
    rfl
  have I0 : EInv id g ⟨g.nodes.map fun n => ⟨n.id, n.attrs, []⟩⟩ := by
    have hnil : ∀ x, (⟨g.nodes.map fun n => ⟨n.id, n.attrs, []⟩⟩ : Graph).nbrsD x = [] := by
      apply nbrsD_eq_nil_of
      intro n hn
      obtain ⟨n0, _, rfl⟩ := List.mem_map.1 hn
      rfl
    refine ⟨by rw [hlab, List.map_id], ?_, ?_, ?_⟩
    · intro n hn
      have hmem : (⟨n.id, n.attrs, []⟩ : Node) ∈
          (⟨g.nodes.map fun n => ⟨n.id, n.attrs, []⟩⟩ : Graph).nodes :=
        List.mem_map.2 ⟨n, hn, rfl⟩
      exact attrs?_of_mem (n := ⟨n.id, n.attrs, []⟩) (hlab ▸ hw.nodup) hmem
    · intro x; rw [hnil]; exact List.nodup_nil
    · intro x y e he; rw [hnil] at he; simp at he
  have hL1 : ∀ t ∈ g.adjEntries, (t.2.1, t.2.2) ∈ g.nbrsD t.1 := by
    intro t ht
    unfold Graph.adjEntries at ht
    obtain ⟨n, hn, ht⟩ := List.mem_flatMap.1 ht
    obtain ⟨p, hp, rfl⟩ := List.mem_map.1 ht
    show (p.1, p.2) ∈ g.nbrsD n.id
    rw [nbrsD_of_mem hw.nodup hn]
    exact hp
  have hL2 : ∀ x y e, (y, e) ∈ g.nbrsD x → (x, y, e) ∈ g.adjEntries ∨ (y, x, e) ∈ g.adjEntries := by
    intro x y e he
    obtain ⟨n, hn, hid, hm⟩ := mem_nbrsD he
    left
    unfold Graph.adjEntries
    exact List.mem_flatMap.2 ⟨n, hn, List.mem_map.2 ⟨(y, e), hm, by rw [hid]⟩⟩
  have := relabel_of_fold hw hs hinj _ I0 g.adjEntries hL1 hL2 g.copy (by
    unfold Graph.copy
    rw [h0eq]
    rfl)
  rw [List.map_id] at this
  exact this

/-- `nx.relabel_nodes(G, mapping, copy=True)` with a mapping that is injective on the nodes of `G`
is `G` renamed by `mapping.get(n, n)`: all attributes and bond records carried along, nodes listed in
the order of `G`. -/
theorem Graph.relabelCopy_spec (g : Graph) (m : List (Nat × Nat)) (hw : g.WF) (hs : g.Simple)
    (hinj : ∀ a ∈ g.labels, ∀ b ∈ g.labels, Graph.mapGet m a = Graph.mapGet m b → a = b) :
    Relabel (Graph.mapGet m) g (g.relabelCopy m) ∧ (g.relabelCopy m).WF ∧ (g.relabelCopy m).Simple ∧
      (g.relabelCopy m).labels = g.labels.map (Graph.mapGet m) := by
  have hndf : (g.nodes.map fun n => Graph.mapGet m n.id).Nodup := by
    have := nodup_map_of_injOn (Graph.mapGet m) hw.nodup hinj
    unfold Graph.labels at this
    rw [List.map_map] at this
    exact this
  -- phase 1: the nodes
  have h1eq : g.nodes.foldl (fun h n => h.addNode (Graph.mapGet m n.id)) Graph.empty
      = ⟨g.nodes.map fun n => ⟨Graph.mapGet m n.id, {}, []⟩⟩ := by
    rw [foldl_append_nodes (fun h n => h.addNode (Graph.mapGet m n.id))
      (fun n => ⟨Graph.mapGet m n.id, {}, []⟩)
      (fun n => Graph.mapGet m n.id) (fun _ => rfl) ?_ g.nodes Graph.empty hndf
      (fun _ _ => by simp [Graph.empty, Graph.labels])]
    · simp [Graph.empty]
    · intro h n hn
      simp only [Graph.addNode, hasNode_eq_false hn]
      rfl
  have hlab : (⟨g.nodes.map fun n => ⟨Graph.mapGet m n.id, {}, []⟩⟩ : Graph).labels
      = g.labels.map (Graph.mapGet m) := by
    simp only [Graph.labels, List.map_map]
    rfl
  have hnil : ∀ x, (⟨g.nodes.map fun n => ⟨Graph.mapGet m n.id, {}, []⟩⟩ : Graph).nbrsD x = [] := by
    apply nbrsD_eq_nil_of
    intro n hn
    obtain ⟨n0, _, rfl⟩ := List.mem_map.1 hn
    rfl
  -- phase 2: the attributes
  obtain ⟨j1, j2, j3, _⟩ := foldl_setAttrs (Graph.mapGet m) g.nodes
    ⟨g.nodes.map fun n => ⟨Graph.mapGet m n.id, {}, []⟩⟩ hndf (by
      intro n hn
      rw [hlab]
      exact List.mem_map_of_mem (List.mem_map_of_mem (f := (·.id)) hn))
  have I0 : EInv (Graph.mapGet m) g (g.nodes.foldl
      (fun h n => h.setAttrs (Graph.mapGet m n.id) n.attrs)
      ⟨g.nodes.map fun n => ⟨Graph.mapGet m n.id, {}, []⟩⟩) := by
    refine ⟨j1.trans hlab, j3, ?_, ?_⟩
    · intro x; rw [j2, hnil]; exact List.nodup_nil
    · intro x y e he; rw [j2, hnil] at he; simp at he
  have hL1 : ∀ t ∈ g.edges, (t.2.1, t.2.2) ∈ g.nbrsD t.1 :=
    fun t ht => mem_edges_sound hw ht
  have hL2 : ∀ x y e, (y, e) ∈ g.nbrsD x → (x, y, e) ∈ g.edges ∨ (y, x, e) ∈ g.edges :=
    fun x y e he => mem_edges_complete hw he
  exact relabel_of_fold hw hs hinj _ I0 g.edges hL1 hL2 (g.relabelCopy m) (by
    unfold Graph.relabelCopy
    simp only [h1eq])

end Tucan
