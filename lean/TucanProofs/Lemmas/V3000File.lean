import TucanProofs.Lemmas.V3000Lines
import TucanProofs.Lemmas.SpliceAny
import TucanProofs.Lemmas.WriteRead
/-!
# The V3000 reader on a whole connection table, under every spelling the format permits

An abstract V3000 file: three header lines and the version line; logical `M  V30 ` lines — any line at
position 4 (`BEGIN CTAB`), the counts line, `BEGIN ATOM`, one line per atom (real or star), `END ATOM`,
and, if the bond count is not zero, `BEGIN BOND`, one line per bond, `END BOND` — followed by any further
lines (other blocks, `END CTAB`, `M  END`, trailing data).  Every logical line may be written with
arbitrary runs of blanks between its tokens and split into physical lines at arbitrary positions with a
trailing dash.  The reader returns one atom per non-star atom line, in file order, keyed by the written
index, and one bond per bond line between non-star atoms plus one bond per listed endpoint for a bond to a
star atom.
-/
namespace Tucan

/-- a logical line given by its tokens (after `M  V30 `), written with some blanks and split somewhere -/
structure Rendered (toks : List Str) (phys : List Str) : Prop where
  spelled : ∃ (lead trail : Nat) (gaps : List Nat) (parts : List Str) (last : Str),
    parts.flatten ++ last = joinBlanks lead trail toks gaps ∧ phys = physicalLines parts last ∧
    endsWithChar (v30Prefix ++ parts.flatten ++ last) '-' = false
  tokens : ∀ t ∈ toks, IsToken t

/-- every entry of a list is rendered by the corresponding group of physical lines -/
inductive AllRendered {α} (toks : α → List Str) : List α → List (List Str) → Prop
  | nil : AllRendered toks [] []
  | cons {e p es ps} : Rendered (toks e) p → AllRendered toks es ps → AllRendered toks (e :: es) (p :: ps)

inductive AtomEntry
  | star (idxTok : Str) (idx : Int) (rest : List Str)
  | real (idxTok : Str) (idx : Int) (sym x y z aamap : Str) (ps : List AtomProp)

def AtomEntry.toks : AtomEntry → List Str
  | .star idxTok _ rest => idxTok :: ['*'] :: rest
  | .real idxTok _ sym x y z aamap ps => idxTok :: sym :: x :: y :: z :: aamap :: ps.map AtomProp.tok

def AtomEntry.idx : AtomEntry → Int
  | .star _ i _ => i
  | .real _ i _ _ _ _ _ _ => i

def AtomEntry.isStar : AtomEntry → Bool
  | .star .. => true
  | .real .. => false

structure AtomEntry.Ok (e : AtomEntry) : Prop where
  idxTok : pyInt (match e with | .star t _ _ => t | .real t _ _ _ _ _ _ _ => t) = .ok e.idx
  real : match e with
    | .star _ _ rest => ∀ t ∈ rest, IsToken t
    | .real idxTok _ sym x y z aamap ps =>
        NotKeyword idxTok ∧ NotKeyword aamap ∧ (∀ t ∈ [x, y, z], IsToken t ∧ pyFloatOk t = true) ∧
        (∀ p ∈ ps, p.Ok) ∧ (sym ∈ elementSyms ∨ sym = ['D'] ∨ sym = ['T'])

/-- the attribute record of a real atom line (`parseAtomAttributes_general`) -/
def AtomEntry.record : AtomEntry → Option Atom
  | .star .. => none
  | .real _ _ sym x y z _ ps =>
      some { sym := some (detectHydrogenIsotopes sym).1,
             z := (match atomicNumberOf (detectHydrogenIsotopes sym).1 with | .ok v => some v | .error _ => none),
             part := some 0, x := some x, y := some y, zc := some z,
             chg := lastNonZero (chgValues ps),
             mass := if (detectHydrogenIsotopes sym).2 = 0 then lastNonZero (massValues ps)
                     else some (detectHydrogenIsotopes sym).2,
             rad := lastNonZero (radValues ps) }

/-- the atom dictionary: real atoms in file order, keyed by written index − 1 (a repeated index overwrites
in place) -/
def atomDictOf (atoms : List AtomEntry) : List (Int × Atom) :=
  atoms.foldl (fun d e => match e.record with
    | some a => ainsert (e.idx - 1) a d
    | none => d) []

def starsOf (atoms : List AtomEntry) : List Int :=
  atoms.filterMap fun e => if e.isStar then some (e.idx - 1) else none

/-- a bond line: index token, type, the two atom numbers, and the remaining tokens; `ends` is the endpoint
list of an `ENDPTS=(…)` keyword among them (used only when one atom is a star atom) -/
structure BondEntry where
  idxTok : Str
  btype : Int
  a1 : Int
  a2 : Int
  pre : List Str
  ends : Option (List Nat)
  post : List Str

def BondEntry.toks (b : BondEntry) : List Str :=
  b.idxTok :: intRepr b.btype :: intRepr b.a1 :: intRepr b.a2 ::
    (b.pre ++ (match b.ends with | some es => endptsToks es | none => []) ++ b.post)

structure BondEntry.Ok (b : BondEntry) : Prop where
  idxTok : IsToken b.idxTok ∧ ¬ isInfix (cs "ENDPTS=(") b.idxTok = true ∧ ')' ∉ b.idxTok
  nums : (intRepr b.btype).length ≤ intMaxStrDigits ∧ (intRepr b.a1).length ≤ intMaxStrDigits ∧
         (intRepr b.a2).length ≤ intMaxStrDigits
  pre : ∀ t ∈ b.pre, IsToken t ∧ ¬ isInfix (cs "ENDPTS=(") t = true ∧ ')' ∉ t
  post : ∀ t ∈ b.post, IsToken t ∧ ')' ∉ t ∧ (b.ends = none → ¬ isInfix (cs "ENDPTS=(") t = true)
  ends : ∀ es, b.ends = some es → es ≠ [] ∧ ∀ e ∈ es.length :: es, (natRepr e).length ≤ intMaxStrDigits

/-- the bonds one bond line contributes -/
def BondEntry.tuples (stars : List Int) (b : BondEntry) : List (Int × Int) :=
  let s1 := stars.contains (b.a1 - 1)
  let s2 := stars.contains (b.a2 - 1)
  if s1 then (match b.ends with | some es => es.map fun (e : Nat) => (b.a2 - 1, (e : Int) - 1) | none => [])
  else if s2 then (match b.ends with | some es => es.map fun (e : Nat) => (b.a1 - 1, (e : Int) - 1) | none => [])
  else [(b.a1 - 1, b.a2 - 1)]

def bondDictOf (stars : List Int) (bonds : List BondEntry) : List ((Int × Int) × Bond) :=
  bonds.foldl (fun d b => (b.tuples stars).foldl (fun d t => ainsert t ({ btype := some b.btype } : Bond) d) d) []


namespace V3F
open LineM WR

/-! ## §1 `Rendered` lines: splice + tokenize -/

theorem tokenizeLine_v30_joinBlanks (toks : List Str) (h : ∀ t ∈ toks, IsToken t) (lead trail : Nat)
    (gaps : List Nat) : tokenizeLine (v30Prefix ++ joinBlanks lead trail toks gaps) = mv toks := by
  have hall : ∀ t ∈ cs "M" :: cs "V30" :: toks, IsToken t := by
    intro t ht
    rcases List.mem_cons.1 ht with rfl | ht
    · exact isToken_M
    rcases List.mem_cons.1 ht with rfl | ht
    · exact isToken_V30
    · exact h t ht
  cases toks with
  | nil =>
    have e : v30Prefix ++ joinBlanks lead trail [] gaps
        = joinBlanks 0 ((lead + trail) + 1) [cs "M", cs "V30"] [1] := by
      simp [joinBlanks, v30Prefix, cs, List.replicate]
    rw [e]
    exact tokenizeLine_joinBlanks _ hall _ _ _
  | cons t ts =>
    have e : v30Prefix ++ joinBlanks lead trail (t :: ts) gaps
        = joinBlanks 0 trail (cs "M" :: cs "V30" :: t :: ts) (1 :: lead :: gaps) := by
      simp only [joinBlanks, List.headD_cons, List.tail_cons, List.replicate_zero, List.nil_append]
      rw [joinBlanks_succ]
      simp [v30Prefix, cs, List.replicate]
    rw [e]
    exact tokenizeLine_joinBlanks _ hall _ _ _

/-- one rendered logical line in front of lines that splice to `restS` -/
theorem rendered_splice {toks phys : List Str} (r : Rendered toks phys) (rest restS : List Str)
    (h : concatLinesWithDash rest = .ok restS) (hr : rest ≠ []) :
    ∃ full, tokenizeLine full = mv toks ∧ concatLinesWithDash (phys ++ rest) = .ok (full :: restS) := by
  obtain ⟨lead, trail, gaps, parts, last, hj, rfl, hd⟩ := r.spelled
  refine ⟨v30Prefix ++ parts.flatten ++ last, ?_, ?_⟩
  · rw [List.append_assoc, hj]
    exact tokenizeLine_v30_joinBlanks toks r.tokens lead trail gaps
  · rw [splice_any_split parts last rest hd]
    cases rest with
    | nil => exact absurd rfl hr
    | cons a b => simp only [expectedSplice, h]; rfl

/-- a list of rendered logical lines in front of lines that splice to `restS` -/
theorem allRendered_splice {α} (tk : α → List Str) {es : List α} {ps : List (List Str)}
    (r : AllRendered tk es ps) (rest restS : List Str)
    (h : concatLinesWithDash rest = .ok restS) (hr : rest ≠ []) :
    ∃ fulls, fulls.map tokenizeLine = es.map (fun e => mv (tk e)) ∧
      concatLinesWithDash (ps.flatten ++ rest) = .ok (fulls ++ restS) ∧ ps.flatten ++ rest ≠ [] := by
  induction r with
  | nil => exact ⟨[], rfl, by simpa using h, by simpa using hr⟩
  | cons r1 _ ih =>
    obtain ⟨fulls, h1, h2, h3⟩ := ih
    obtain ⟨full, g1, g2⟩ := rendered_splice r1 _ _ h2 h3
    refine ⟨full :: fulls, by simp [g1, h1], ?_, ?_⟩
    · rw [List.flatten_cons, List.append_assoc, g2]; rfl
    · rw [List.flatten_cons, List.append_assoc]
      exact List.append_ne_nil_of_right_ne_nil _ h3

theorem allRendered_length {α} (tk : α → List Str) {es : List α} {ps : List (List Str)}
    (r : AllRendered tk es ps) : ps.length = es.length := by
  induction r with
  | nil => rfl
  | cons _ _ ih => simp [ih]


/-! ## §2 the shape of the tokenized file, positional access; §3 counts and block markers -/

def countsL (n m : Nat) (cr : List Str) : List Str := mv (cs "COUNTS" :: natRepr n :: natRepr m :: cr)

/-- the tokenized file: five lines, counts line, `BEGIN ATOM`, atom lines `A`, `END ATOM`, the rest -/
def fileL (H : List (List Str)) (n m : Nat) (cr : List Str) (A R : List (List Str)) : List (List Str) :=
  H ++ countsL n m cr :: mv tBeginAtom :: (A ++ mv tEndAtom :: R)

theorem counts_get (H : List (List Str)) (hH : H.length = 5) (n m : Nat) (cr : List Str) (A R : List (List Str)) :
    getIdx (fileL H n m cr A R) 5 = .ok (countsL n m cr) ∧
    getIdx (countsL n m cr) 2 = .ok (cs "COUNTS") ∧
    getIdx (countsL n m cr) 3 = .ok (natRepr n) ∧ getIdx (countsL n m cr) 4 = .ok (natRepr m) := by
  refine ⟨getIdx_at H _ _ 5 hH.symm, ?_, ?_, ?_⟩ <;> simp [getIdx, countsL, mv]

theorem validateCounts_eval (H : List (List Str)) (hH : H.length = 5) (n m : Nat) (cr : List Str)
    (A R : List (List Str)) : validateCountsLine (fileL H n m cr A R) = .ok () := by
  obtain ⟨h5, h2, -, -⟩ := counts_get H hH n m cr A R
  unfold validateCountsLine
  simp only [h5, ok_bind, h2]
  simp [countsL, mv]
  rfl

theorem beginAtom_eval (H : List (List Str)) (hH : H.length = 5) (n m : Nat) (cr : List Str)
    (A R : List (List Str)) : expectBlockLine (fileL H n m cr A R) 6 (cs "BEGIN ATOM") = .ok () := by
  have := expectBlockLine_at (H ++ [countsL n m cr]) tBeginAtom (A ++ mv tEndAtom :: R) 6 (cs "BEGIN ATOM")
    (by simp [hH]) (by simp [tBeginAtom, joinSp, cs])
  simpa [fileL, List.append_assoc] using this

theorem endAtom_eval (H : List (List Str)) (hH : H.length = 5) (n m : Nat) (cr : List Str)
    (A R : List (List Str)) (hA : A.length = n) :
    expectBlockLine (fileL H n m cr A R) (7 + (n : Int)) (cs "END ATOM") = .ok () := by
  have := expectBlockLine_at (H ++ [countsL n m cr, mv tBeginAtom] ++ A) tEndAtom R (7 + (n : Int)) (cs "END ATOM")
    (by simp [hH, hA]; omega) (by simp [tEndAtom, joinSp, cs])
  simpa [fileL, List.append_assoc] using this

theorem atomSlice_eval (H : List (List Str)) (hH : H.length = 5) (n m : Nat) (cr : List Str)
    (A R : List (List Str)) (hA : A.length = n) :
    sliceInt (fileL H n m cr A R) 7 (7 + (n : Int)) = A := by
  have := sliceInt_mid (H ++ [countsL n m cr, mv tBeginAtom]) A (mv tEndAtom :: R) 7 (7 + (n : Int))
    (by simp [hH]) (by simp [hH, hA])
  simpa [fileL, List.append_assoc] using this

/-! ## §4 the atom fold -/

theorem record_none_iff (e : AtomEntry) : e.record = none ↔ e.isStar = true := by
  cases e <;> simp [AtomEntry.record, AtomEntry.isStar]

/-- what one atom line does to the state of the loop -/
def atomStep (x : List (Int × Atom) × List Int) (e : AtomEntry) : List (Int × Atom) × List Int :=
  match e.record with
  | some a => (ainsert (e.idx - 1) a x.1, x.2)
  | none => (x.1, x.2 ++ [e.idx - 1])

theorem atom_line_eval (e : AtomEntry) (he : e.Ok) :
    getIdx (mv e.toks) 2 >>= pyInt = .ok e.idx ∧ parseAtomAttributesV3000 (mv e.toks) = .ok e.record := by
  cases e with
  | star t i rest =>
    refine ⟨?_, parseAtomAttributes_star t rest⟩
    have := he.idxTok
    simpa [getIdx, mv, AtomEntry.toks, ok_bind] using this
  | real t i sym x y z aamap ps =>
    have h1 := he.idxTok
    obtain ⟨k1, k2, k3, k4, k5⟩ := he.real
    obtain ⟨zAt, hz, hp⟩ := parseAtomAttributes_general t sym x y z aamap ps k1 k2 k3 k4 k5
    refine ⟨by simpa [getIdx, mv, AtomEntry.toks, ok_bind] using h1, ?_⟩
    simp only [mv, AtomEntry.toks, AtomEntry.record, hz]
    exact hp

theorem atomFold_eq : ∀ (atoms : List AtomEntry) (d : List (Int × Atom)) (s : List Int),
    atoms.foldl atomStep (d, s) =
      (atoms.foldl (fun d e => match e.record with
        | some a => ainsert (e.idx - 1) a d
        | none => d) d, s ++ starsOf atoms) := by
  intro atoms
  induction atoms with
  | nil => intro d s; simp [starsOf]
  | cons e r ih =>
    intro d s
    rw [List.foldl_cons, List.foldl_cons]
    cases hrec : e.record with
    | none =>
      have hs : e.isStar = true := (record_none_iff e).1 hrec
      simp only [atomStep, hrec, ih]
      simp [starsOf, hs]
    | some a =>
      have hs : e.isStar = false := by
        cases h : e.isStar with
        | false => rfl
        | true => rw [(record_none_iff e).2 h] at hrec; cases hrec
      simp only [atomStep, hrec, ih]
      simp [starsOf, hs]

theorem atomBlock_eval (H : List (List Str)) (hH : H.length = 5) (m : Nat) (cr : List Str)
    (atoms : List AtomEntry) (R : List (List Str)) (hatoms : ∀ e ∈ atoms, e.Ok)
    (hn : (natRepr atoms.length).length ≤ intMaxStrDigits) :
    parseAtomBlockV3000 (fileL H atoms.length m cr (atoms.map fun e => mv e.toks) R)
      = .ok (atomDictOf atoms, starsOf atoms) := by
  have hA : (atoms.map fun e => mv e.toks).length = atoms.length := by simp
  obtain ⟨h5, -, h3, -⟩ := counts_get H hH atoms.length m cr (atoms.map fun e => mv e.toks) R
  unfold parseAtomBlockV3000
  simp only [h5, ok_bind, h3, pyInt_natRepr _ hn, beginAtom_eval H hH, endAtom_eval H hH _ _ _ _ _ hA,
    atomSlice_eval H hH _ _ _ _ _ hA]
  have key := foldlM_map_ok (fun e : AtomEntry => mv e.toks)
    (fun (x : List (Int × Atom) × List Int) (line : List Str) =>
      (match x with
      | (atoms, stars) => do
        let idx ← pyInt (← getIdx line 2)
        match ← parseAtomAttributesV3000 line with
          | none => pure (atoms, stars ++ [idx - 1])
          | some a => pure (ainsert (idx - 1) a atoms, stars) : PyM (List (Int × Atom) × List Int)))
    atomStep (fun _ => True) atoms ([], []) trivial
    (by
      rintro ⟨d, s⟩ e he -
      refine ⟨?_, trivial⟩
      obtain ⟨g1, g2⟩ := atom_line_eval e (hatoms e he)
      cases h2 : getIdx (mv e.toks) 2 with
      | error err => rw [h2] at g1; cases g1
      | ok tok =>
        rw [h2, ok_bind] at g1
        simp only [ok_bind, g1, g2, atomStep]
        cases e.record <;> rfl)
  rw [atomFold_eq] at key
  have k1 := key.1
  rw [List.nil_append] at k1
  exact k1


/-! ## §5 the bond fold -/

theorem mem_of_isInfix (p : Str) : ∀ (t : Str), isInfix p t = true → ∀ c ∈ p, c ∈ t := by
  intro t
  induction t with
  | nil =>
    intro h c hc
    simp only [isInfix, List.isEmpty_iff] at h
    subst h; cases hc
  | cons a r ih =>
    intro h c hc
    simp only [isInfix, Bool.or_eq_true] at h
    rcases h with h | h
    · exact (List.isPrefixOf_iff_prefix.1 h).subset hc
    · exact List.mem_cons_of_mem _ (ih h c hc)

theorem findInfix_none (p : Str) : ∀ (t : Str), isInfix p t = false → findInfix p t = none := by
  intro t
  induction t with
  | nil =>
    intro h
    simp only [isInfix] at h
    simp [findInfix, h]
  | cons a r ih =>
    intro h
    simp only [isInfix, Bool.or_eq_false_iff] at h
    simp [findInfix, h.1, ih h.2]

theorem findInfix_joinSp_none (p : Str) (hp : ' ' ∉ p) (ts : List Str) (hne : ts ≠ [])
    (h : ∀ t ∈ ts, isInfix p t = false) : findInfix p (joinSp ts) = none := by
  obtain ⟨init, l, rfl⟩ : ∃ init l, ts = init ++ [l] :=
    ⟨ts.dropLast, ts.getLast hne, (List.dropLast_concat_getLast hne).symm⟩
  rw [V3L.joinSp_sp init l []]
  show findInfix p (V3L.sp init ++ l) = none
  rw [V3L.findInfix_sp p hp l init (fun t ht => h t (by simp [ht])), findInfix_none p l (h l (by simp))]
  rfl

theorem noInfix_of_noParen {t : Str} (h : '(' ∉ t) : ¬ isInfix (cs "ENDPTS=(") t = true :=
  fun hi => h (mem_of_isInfix _ t hi '(' (by simp [cs]))

/-- a token without `ENDPTS=(` and without `)` -/
def Clean (t : Str) : Prop := IsToken t ∧ ¬ isInfix (cs "ENDPTS=(") t = true ∧ ')' ∉ t

theorem intRepr_clean (v : Int) : Clean (intRepr v) := by
  refine ⟨intRepr_isToken v, noInfix_of_noParen ?_, ?_⟩
  · intro h
    rcases intRepr_chars v _ h with h | h
    · revert h; decide
    · revert h; decide
  · intro h
    rcases intRepr_chars v _ h with h | h
    · revert h; decide
    · revert h; decide

theorem clean_M : Clean (cs "M") := ⟨isToken_M, noInfix_of_noParen (by simp [cs]), by simp [cs]⟩
theorem clean_V30 : Clean (cs "V30") := ⟨isToken_V30, noInfix_of_noParen (by simp [cs]), by simp [cs]⟩

/-- a bond line whose other atom is a star atom -/
theorem starLine_eval (b : BondEntry) (hb : b.Ok) (start : Int) :
    parseBondLineWithStarAtom (mv b.toks) start =
      .ok (match b.ends with
        | some es => es.map fun (e : Nat) => (start, (e : Int) - 1)
        | none => []) := by
  have hfront : ∀ t ∈ cs "M" :: cs "V30" :: b.idxTok :: intRepr b.btype :: intRepr b.a1 :: intRepr b.a2 :: b.pre,
      Clean t := by
    intro t ht
    simp only [List.mem_cons] at ht
    rcases ht with rfl | rfl | rfl | rfl | rfl | rfl | ht
    · exact clean_M
    · exact clean_V30
    · exact hb.idxTok
    · exact intRepr_clean _
    · exact intRepr_clean _
    · exact intRepr_clean _
    · exact hb.pre t ht
  cases hends : b.ends with
  | some es =>
    have e : mv b.toks = (cs "M" :: cs "V30" :: b.idxTok :: intRepr b.btype :: intRepr b.a1 :: intRepr b.a2 :: b.pre)
        ++ endptsToks es ++ b.post := by
      simp [mv, BondEntry.toks, hends]
    obtain ⟨h1, h2⟩ := hb.ends es hends
    rw [e]
    exact parseBondLineWithStarAtom_endpts _ _ es start h1 hfront (fun t ht => ⟨(hb.post t ht).1, (hb.post t ht).2.1⟩) h2
  | none =>
    apply parseBondLineWithStarAtom_none
    apply findInfix_joinSp_none _ V3L.cs_ENDPTS_noblank _ (by simp [mv])
    intro t ht
    have : t ∈ (cs "M" :: cs "V30" :: b.idxTok :: intRepr b.btype :: intRepr b.a1 :: intRepr b.a2 :: b.pre) ∨ t ∈ b.post := by
      simp only [mv, BondEntry.toks, hends, List.append_nil, List.mem_cons, List.mem_append] at ht ⊢
      rcases ht with h | h | h | h | h | h | h | h <;> simp [h]
    rcases this with h | h
    · simpa using (hfront t h).2.1
    · simpa using (hb.post t h).2.2 hends

/-- the tokenized rest of the file after `END ATOM` -/
def bondTail (bonds : List BondEntry) (T : List (List Str)) : List (List Str) :=
  if bonds.isEmpty then T else mv tBeginBond :: ((bonds.map fun b => mv b.toks) ++ mv tEndBond :: T)

theorem bondBlock_eval (H : List (List Str)) (hH : H.length = 5) (n : Nat) (cr : List Str)
    (A : List (List Str)) (hA : A.length = n) (bonds : List BondEntry) (T : List (List Str)) (stars : List Int)
    (hbonds : ∀ b ∈ bonds, b.Ok)
    (hn : (natRepr n).length ≤ intMaxStrDigits) (hm : (natRepr bonds.length).length ≤ intMaxStrDigits)
    (hns : ∀ b ∈ bonds, ¬ (stars.contains (b.a1 - 1) = true ∧ stars.contains (b.a2 - 1) = true)) :
    parseBondBlockV3000 (fileL H n bonds.length cr A (bondTail bonds T)) stars = .ok (bondDictOf stars bonds) := by
  obtain ⟨h5, -, h3, h4⟩ := counts_get H hH n bonds.length cr A (bondTail bonds T)
  unfold parseBondBlockV3000
  simp only [h5, ok_bind, h3, h4, pyInt_natRepr _ hn, pyInt_natRepr _ hm]
  cases bonds with
  | nil => simp [bondDictOf]; rfl
  | cons b0 bs0 =>
    generalize hes : b0 :: bs0 = bonds at *
    have hne : ((bonds.length : Int) == 0) = false := by
      subst hes; simp only [List.length_cons, beq_eq_false_iff_ne, ne_eq]; omega
    have htail : bondTail bonds T = mv tBeginBond :: ((bonds.map fun b => mv b.toks) ++ mv tEndBond :: T) := by
      subst hes; simp [bondTail]
    generalize hB : (bonds.map fun b => mv b.toks) = B at htail
    have hlenB : B.length = bonds.length := by subst hB; simp
    rw [htail]
    simp only [hne, Bool.false_eq_true, if_false]
    have hb : expectBlockLine (fileL H n bonds.length cr A (mv tBeginBond :: (B ++ mv tEndBond :: T)))
        (7 + (n : Int) + 2 - 1) (cs "BEGIN BOND") = .ok () := by
      have := expectBlockLine_at (H ++ [countsL n bonds.length cr, mv tBeginAtom] ++ A ++ [mv tEndAtom]) tBeginBond
        (B ++ mv tEndBond :: T) (7 + (n : Int) + 2 - 1) (cs "BEGIN BOND")
        (by simp [hH, hA]; omega) (by simp [tBeginBond, joinSp, cs])
      simpa [fileL, List.append_assoc] using this
    have hend : expectBlockLine (fileL H n bonds.length cr A (mv tBeginBond :: (B ++ mv tEndBond :: T)))
        (7 + (n : Int) + 2 + (bonds.length : Int)) (cs "END BOND") = .ok () := by
      have := expectBlockLine_at (H ++ [countsL n bonds.length cr, mv tBeginAtom] ++ A ++ [mv tEndAtom, mv tBeginBond] ++ B)
        tEndBond T (7 + (n : Int) + 2 + (bonds.length : Int)) (cs "END BOND")
        (by simp [hH, hA, hlenB]; omega) (by simp [tEndBond, joinSp, cs])
      simpa [fileL, List.append_assoc] using this
    have hs : sliceInt (fileL H n bonds.length cr A (mv tBeginBond :: (B ++ mv tEndBond :: T)))
        (7 + (n : Int) + 2) (7 + (n : Int) + 2 + (bonds.length : Int)) = B := by
      have := sliceInt_mid (H ++ [countsL n bonds.length cr, mv tBeginAtom] ++ A ++ [mv tEndAtom, mv tBeginBond]) B
        (mv tEndBond :: T) (7 + (n : Int) + 2) (7 + (n : Int) + 2 + (bonds.length : Int))
        (by simp [hH, hA]; omega) (by simp [hH, hA, hlenB]; omega)
      simpa [fileL, List.append_assoc] using this
    simp only [hb, hend, hs, ok_bind]
    subst hB
    refine And.left (foldlM_map_ok (fun b : BondEntry => mv b.toks) _
      (fun d b => (b.tuples stars).foldl (fun d t => ainsert t ({ btype := some b.btype } : Bond) d) d)
      (fun _ => True) bonds [] trivial ?_)
    intro d b hbm _
    refine ⟨?_, trivial⟩
    have hok := hbonds b hbm
    obtain ⟨b1, b2, b3⟩ := hok.nums
    have g4 : getIdx (mv b.toks) 4 = .ok (intRepr b.a1) := by simp [getIdx, mv, BondEntry.toks]
    have g5 : getIdx (mv b.toks) 5 = .ok (intRepr b.a2) := by simp [getIdx, mv, BondEntry.toks]
    have g3 : getIdx (mv b.toks) 3 = .ok (intRepr b.btype) := by simp [getIdx, mv, BondEntry.toks]
    simp only [g4, g5, g3, ok_bind, pyInt_intRepr _ b1, pyInt_intRepr _ b2, pyInt_intRepr _ b3]
    have hns' := hns b hbm
    cases h1 : stars.contains (b.a1 - 1) <;> cases h2 : stars.contains (b.a2 - 1)
    · simp only [BondEntry.tuples, h1, h2, Bool.false_and, Bool.false_eq_true, if_false]
      rfl
    · simp only [BondEntry.tuples, h1, h2, Bool.false_and, Bool.false_eq_true, if_false, if_true,
        starLine_eval b hok, ok_bind]
      rfl
    · simp only [BondEntry.tuples, h1, h2, Bool.and_false, Bool.false_eq_true, if_false, if_true,
        starLine_eval b hok, ok_bind]
      rfl
    · exact absurd ⟨h1, h2⟩ hns'


/-! ## §6 validation and assembly -/

theorem mem_ainsert {κ ν} [BEq κ] (k : κ) (v : ν) : ∀ (d : List (κ × ν)) (e : κ × ν),
    e ∈ ainsert k v d → e = (k, v) ∨ e ∈ d := by
  intro d
  induction d with
  | nil => intro e h; simpa [ainsert] using h
  | cons x r ih =>
    intro e h
    obtain ⟨k', v'⟩ := x
    simp only [ainsert] at h
    split at h
    · rcases List.mem_cons.1 h with h | h
      · exact Or.inl h
      · exact Or.inr (List.mem_cons_of_mem _ h)
    · rcases List.mem_cons.1 h with h | h
      · exact Or.inr (by simp [h])
      · rcases ih e h with h | h
        · exact Or.inl h
        · exact Or.inr (List.mem_cons_of_mem _ h)

theorem mem_foldl_ainsert {κ ν} [BEq κ] (v : ν) : ∀ (ts : List κ) (d : List (κ × ν)) (e : κ × ν),
    e ∈ ts.foldl (fun d t => ainsert t v d) d → e ∈ d ∨ e.1 ∈ ts := by
  intro ts
  induction ts with
  | nil => intro d e h; exact Or.inl h
  | cons t r ih =>
    intro d e h
    rw [List.foldl_cons] at h
    rcases ih _ e h with h | h
    · rcases mem_ainsert t v d e h with h | h
      · exact Or.inr (by simp [h])
      · exact Or.inl h
    · exact Or.inr (List.mem_cons_of_mem _ h)

theorem bondDict_keys (stars : List Int) : ∀ (bonds : List BondEntry) (d : List ((Int × Int) × Bond))
    (e : (Int × Int) × Bond),
    e ∈ bonds.foldl (fun d b => (b.tuples stars).foldl (fun d t => ainsert t ({ btype := some b.btype } : Bond) d) d) d →
    e ∈ d ∨ ∃ b ∈ bonds, e.1 ∈ b.tuples stars := by
  intro bonds
  induction bonds with
  | nil => intro d e h; exact Or.inl h
  | cons b r ih =>
    intro d e h
    rw [List.foldl_cons] at h
    rcases ih _ e h with h | ⟨b', hb', h⟩
    · rcases mem_foldl_ainsert _ _ d e h with h | h
      · exact Or.inl h
      · exact Or.inr ⟨b, by simp, h⟩
    · exact Or.inr ⟨b', List.mem_cons_of_mem _ hb', h⟩

theorem validateBond_eval (stars : List Int) (bonds : List BondEntry) (A : List (Int × Atom))
    (h : ∀ b ∈ bonds, ∀ t ∈ b.tuples stars, (alookup t.1 A).isSome ∧ (alookup t.2 A).isSome) :
    validateBondIndices (bondDictOf stars bonds) A = .ok () := by
  unfold validateBondIndices
  apply forM_ok
  rintro ⟨⟨u, v⟩, bd⟩ he
  rcases bondDict_keys stars bonds [] _ he with h' | ⟨b, hb, ht⟩
  · cases h'
  · obtain ⟨h1, h2⟩ := h b hb _ ht
    simp only at h1 h2
    have e1 : (alookup u A).isNone = false := by
      cases hh : alookup u A with
      | none => rw [hh] at h1; cases h1
      | some x => rfl
    have e2 : (alookup v A).isNone = false := by
      cases hh : alookup v A with
      | none => rw [hh] at h2; cases h2
      | some x => rfl
    simp only [e1, e2, Bool.or_self, Bool.false_eq_true, if_false]
    rfl

/-- the optional bond part of the file, spliced -/
theorem bondPart_splice (bonds : List BondEntry) (pBB pEB : List Str) (pBonds : List (List Str))
    (rBB : Rendered tBeginBond pBB) (rEB : Rendered tEndBond pEB)
    (rBonds : AllRendered BondEntry.toks bonds pBonds) (tail tailS : List Str)
    (h : concatLinesWithDash tail = .ok tailS) (hr : tail ≠ []) :
    ∃ S, concatLinesWithDash ((if bonds.isEmpty then [] else pBB ++ pBonds.flatten ++ pEB) ++ tail) = .ok S ∧
      S.map tokenizeLine = bondTail bonds (tailS.map tokenizeLine) ∧
      (if bonds.isEmpty then [] else pBB ++ pBonds.flatten ++ pEB) ++ tail ≠ [] := by
  cases hE : bonds.isEmpty with
  | true => exact ⟨tailS, by simpa using h, by simp [bondTail, hE], by simpa using hr⟩
  | false =>
    obtain ⟨fEB, t1, s1⟩ := rendered_splice rEB tail tailS h hr
    obtain ⟨fB, t2, s2, n2⟩ := allRendered_splice BondEntry.toks rBonds (pEB ++ tail) (fEB :: tailS) s1
      (List.append_ne_nil_of_right_ne_nil _ hr)
    obtain ⟨fBB, t3, s3⟩ := rendered_splice rBB _ _ s2 n2
    refine ⟨fBB :: (fB ++ fEB :: tailS), ?_, ?_, ?_⟩
    · simpa [List.append_assoc] using s3
    · simp [bondTail, hE, t1, t2, t3]
    · simp only [Bool.false_eq_true, if_false, List.append_assoc]
      exact List.append_ne_nil_of_right_ne_nil _ n2

theorem graphAttributes_unfold (lines : List Str) :
    graphAttributesV3000 lines =
      (tokenizeLines lines >>= fun toks =>
        validateCountsLine toks >>= fun _ =>
        parseAtomBlockV3000 toks >>= fun p =>
        parseBondBlockV3000 toks p.2 >>= fun bonds =>
        validateBondIndices bonds p.1 >>= fun _ => pure (p.1, bonds)) := rfl

end V3F

/-- **The V3000 connection table, every spelling.** -/
theorem graphAttributesV3000_spec (h0 h1 h2 h3 : Str) (line4 : List Str) (countsRest : List Str)
    (atoms : List AtomEntry) (bonds : List BondEntry) (tailLines tailSpliced : List Str)
    (p4 pCounts pBeginAtom pEndAtom pBeginBond pEndBond : List Str) (pAtoms pBonds : List (List Str))
    (hhdr : ∀ h ∈ [h0, h1, h2, h3], (startsWith h v30Prefix && endsWithChar h '-') = false)
    (r4 : Rendered line4 p4)
    (rCounts : Rendered (cs "COUNTS" :: natRepr atoms.length :: natRepr bonds.length :: countsRest) pCounts)
    (rBA : Rendered [cs "BEGIN", cs "ATOM"] pBeginAtom) (rEA : Rendered [cs "END", cs "ATOM"] pEndAtom)
    (rBB : Rendered [cs "BEGIN", cs "BOND"] pBeginBond) (rEB : Rendered [cs "END", cs "BOND"] pEndBond)
    (rAtoms : AllRendered AtomEntry.toks atoms pAtoms)
    (rBonds : AllRendered BondEntry.toks bonds pBonds)
    (hatoms : ∀ e ∈ atoms, e.Ok) (hbonds : ∀ b ∈ bonds, b.Ok)
    (hcounts : (natRepr atoms.length).length ≤ intMaxStrDigits ∧ (natRepr bonds.length).length ≤ intMaxStrDigits)
    (hnostar2 : ∀ b ∈ bonds, ¬ ((starsOf atoms).contains (b.a1 - 1) ∧ (starsOf atoms).contains (b.a2 - 1)))
    (hendpoints : ∀ b ∈ bonds, ∀ t ∈ b.tuples (starsOf atoms),
      (alookup t.1 (atomDictOf atoms)).isSome ∧ (alookup t.2 (atomDictOf atoms)).isSome)
    (htail : concatLinesWithDash tailLines = .ok tailSpliced) (htailne : tailLines ≠ []) :
    graphAttributesV3000
      (h0 :: h1 :: h2 :: h3 :: (p4 ++ pCounts ++ pBeginAtom ++ pAtoms.flatten ++ pEndAtom ++
        (if bonds.isEmpty then [] else pBeginBond ++ pBonds.flatten ++ pEndBond) ++ tailLines)) =
      .ok (atomDictOf atoms, bondDictOf (starsOf atoms) bonds) := by
  -- splice the file from the back
  obtain ⟨SB, sB, tB, nB⟩ := V3F.bondPart_splice bonds pBeginBond pEndBond pBonds rBB rEB rBonds tailLines
    tailSpliced htail htailne
  obtain ⟨fEA, tEA, sEA⟩ := V3F.rendered_splice rEA _ _ sB nB
  have nEA := List.append_ne_nil_of_right_ne_nil pEndAtom nB
  obtain ⟨fA, tA, sA, nA⟩ := V3F.allRendered_splice AtomEntry.toks rAtoms _ _ sEA nEA
  obtain ⟨fBA, tBA, sBA⟩ := V3F.rendered_splice rBA _ _ sA nA
  have nBA := List.append_ne_nil_of_right_ne_nil pBeginAtom nA
  obtain ⟨fC, tC, sC⟩ := V3F.rendered_splice rCounts _ _ sBA nBA
  have nC := List.append_ne_nil_of_right_ne_nil pCounts nBA
  obtain ⟨f4, -, s4⟩ := V3F.rendered_splice r4 _ _ sC nC
  have n4 := List.append_ne_nil_of_right_ne_nil p4 nC
  have hpass := splice_passthrough [h0, h1, h2, h3] hhdr _ n4
  rw [s4] at hpass
  have htok : tokenizeLines (h0 :: h1 :: h2 :: h3 :: (p4 ++ pCounts ++ pBeginAtom ++ pAtoms.flatten ++ pEndAtom ++
        (if bonds.isEmpty then [] else pBeginBond ++ pBonds.flatten ++ pEndBond) ++ tailLines)) =
      .ok (V3F.fileL [tokenizeLine h0, tokenizeLine h1, tokenizeLine h2, tokenizeLine h3, tokenizeLine f4]
        atoms.length bonds.length countsRest (atoms.map fun e => WR.mv e.toks)
        (V3F.bondTail bonds (tailSpliced.map tokenizeLine))) := by
    unfold tokenizeLines
    simp only [List.append_assoc]
    have e : h0 :: h1 :: h2 :: h3 :: (p4 ++ (pCounts ++ (pBeginAtom ++ (pAtoms.flatten ++ (pEndAtom ++
        ((if bonds.isEmpty then [] else pBeginBond ++ (pBonds.flatten ++ pEndBond)) ++ tailLines)))))) =
        [h0, h1, h2, h3] ++ (p4 ++ (pCounts ++ (pBeginAtom ++ (pAtoms.flatten ++ (pEndAtom ++
        ((if bonds.isEmpty then [] else pBeginBond ++ pBonds.flatten ++ pEndBond) ++ tailLines)))))) := by
      simp [List.append_assoc]
    rw [e, hpass]
    simp only [Except.map, LineM.ok_bind, pure, Except.pure, V3F.fileL, V3F.countsL, List.map_append, List.map_cons,
      tEA, tA, tBA, tC, tB, List.cons_append, List.nil_append]
    rfl
  rw [V3F.graphAttributes_unfold, htok, LineM.ok_bind,
    V3F.validateCounts_eval _ rfl, LineM.ok_bind,
    V3F.atomBlock_eval _ rfl _ _ atoms _ hatoms hcounts.1, LineM.ok_bind,
    V3F.bondBlock_eval _ rfl atoms.length _ _ (by simp) bonds _ (starsOf atoms) hbonds hcounts.1 hcounts.2 hnostar2,
    LineM.ok_bind, V3F.validateBond_eval _ _ _ hendpoints]
  rfl

end Tucan
