import TucanProofs.Lemmas.V3000Lines
import TucanProofs.Lemmas.SpliceAny
import TucanProofs.Lemmas.WriteRead
/-!
# The V3000 reader on a whole connection table, under every spelling the format permits

An abstract V3000 file: three header lines and the version line; logical `M  V30 ` lines — any line at
position 4 (`BEGIN CTAB`), the counts line, `BEGIN ATOM`, one line per atom (real or star), `END ATOM`,
and, if the bond count is not zero, `BEGIN BOND`, one line per bond, `END BOND` — followed by any further
lines (other blocks, `END CTAB`, `M  END`, trailing data).  Every logical line may be written with
arbitrary runs of blanks between its tokens and split into physical lines at arbitrary positions with a
trailing dash.  The reader returns one atom per non-star atom line, in file order, keyed by the written
index, and one bond per bond line between non-star atoms plus one bond per listed endpoint for a bond to a
star atom.
-/
namespace Tucan

/-- a logical line given by its tokens (after `M  V30 `), written with some blanks and split somewhere -/
structure Rendered (toks : List Str) (phys : List Str) : Prop where
  spelled : ∃ (lead trail : Nat) (gaps : List Nat) (parts : List Str) (last : Str),
    parts.flatten ++ last = joinBlanks lead trail toks gaps ∧ phys = physicalLines parts last ∧
    endsWithChar (v30Prefix ++ parts.flatten ++ last) '-' = false
  tokens : ∀ t ∈ toks, IsToken t

/-- every entry of a list is rendered by the corresponding group of physical lines -/
inductive AllRendered {α} (toks : α → List Str) : List α → List (List Str) → Prop
  | nil : AllRendered toks [] []
  | cons {e p es ps} : Rendered (toks e) p → AllRendered toks es ps → AllRendered toks (e :: es) (p :: ps)

inductive AtomEntry
  | star (idxTok : Str) (idx : Int) (rest : List Str)
  | real (idxTok : Str) (idx : Int) (sym x y z aamap : Str) (ps : List AtomProp)

def AtomEntry.toks : AtomEntry → List Str
  | .star idxTok _ rest => idxTok :: ['*'] :: rest
  | .real idxTok _ sym x y z aamap ps => idxTok :: sym :: x :: y :: z :: aamap :: ps.map AtomProp.tok

def AtomEntry.idx : AtomEntry → Int
  | .star _ i _ => i
  | .real _ i _ _ _ _ _ _ => i

def AtomEntry.isStar : AtomEntry → Bool
  | .star .. => true
  | .real .. => false

structure AtomEntry.Ok (e : AtomEntry) : Prop where
  idxTok : pyInt (match e with | .star t _ _ => t | .real t _ _ _ _ _ _ _ => t) = .ok e.idx
  real : match e with
    | .star _ _ rest => ∀ t ∈ rest, IsToken t
    | .real idxTok _ sym x y z aamap ps =>
        NotKeyword idxTok ∧ NotKeyword aamap ∧ (∀ t ∈ [x, y, z], IsToken t ∧ pyFloatOk t = true) ∧
        (∀ p ∈ ps, p.Ok) ∧ (sym ∈ elementSyms ∨ sym = ['D'] ∨ sym = ['T'])

/-- the attribute record of a real atom line (`parseAtomAttributes_general`) -/
def AtomEntry.record : AtomEntry → Option Atom
  | .star .. => none
  | .real _ _ sym x y z _ ps =>
      some { sym := some (detectHydrogenIsotopes sym).1,
             z := (match atomicNumberOf (detectHydrogenIsotopes sym).1 with | .ok v => some v | .error _ => none),
             part := some 0, x := some x, y := some y, zc := some z,
             chg := lastNonZero (chgValues ps),
             mass := if (detectHydrogenIsotopes sym).2 = 0 then lastNonZero (massValues ps)
                     else some (detectHydrogenIsotopes sym).2,
             rad := lastNonZero (radValues ps) }

/-- the atom dictionary: real atoms in file order, keyed by written index − 1 (a repeated index overwrites
in place) -/
def atomDictOf (atoms : List AtomEntry) : List (Int × Atom) :=
  atoms.foldl (fun d e => match e.record with
    | some a => ainsert (e.idx - 1) a d
    | none => d) []

def starsOf (atoms : List AtomEntry) : List Int :=
  atoms.filterMap fun e => if e.isStar then some (e.idx - 1) else none

/-- a bond line: index token, type, the two atom numbers, and the remaining tokens; `ends` is the endpoint
list of an `ENDPTS=(…)` keyword among them (used only when one atom is a star atom) -/
structure BondEntry where
  idxTok : Str
  btype : Int
  a1 : Int
  a2 : Int
  pre : List Str
  ends : Option (List Nat)
  post : List Str

def BondEntry.toks (b : BondEntry) : List Str :=
  b.idxTok :: intRepr b.btype :: intRepr b.a1 :: intRepr b.a2 ::
    (b.pre ++ (match b.ends with | some es => endptsToks es | none => []) ++ b.post)

structure BondEntry.Ok (b : BondEntry) : Prop where
  idxTok : IsToken b.idxTok ∧ ¬ isInfix (cs "ENDPTS=(") b.idxTok = true ∧ ')' ∉ b.idxTok
  nums : (intRepr b.btype).length ≤ intMaxStrDigits ∧ (intRepr b.a1).length ≤ intMaxStrDigits ∧
         (intRepr b.a2).length ≤ intMaxStrDigits
  pre : ∀ t ∈ b.pre, IsToken t ∧ ¬ isInfix (cs "ENDPTS=(") t = true ∧ ')' ∉ t
  post : ∀ t ∈ b.post, IsToken t ∧ ')' ∉ t ∧ (b.ends = none → ¬ isInfix (cs "ENDPTS=(") t = true)
  ends : ∀ es, b.ends = some es → es ≠ [] ∧ ∀ e ∈ es.length :: es, (natRepr e).length ≤ intMaxStrDigits

/-- the bonds one bond line contributes -/
def BondEntry.tuples (stars : List Int) (b : BondEntry) : List (Int × Int) :=
  let s1 := stars.contains (b.a1 - 1)
  let s2 := stars.contains (b.a2 - 1)
  if s1 then (match b.ends with | some es => es.map fun (e : Nat) => (b.a2 - 1, (e : Int) - 1) | none => [])
  else if s2 then (match b.ends with | some es => es.map fun (e : Nat) => (b.a1 - 1, (e : Int) - 1) | none => [])
  else [(b.a1 - 1, b.a2 - 1)]

def bondDictOf (stars : List Int) (bonds : List BondEntry) : List ((Int × Int) × Bond) :=
  bonds.foldl (fun d b => (b.tuples stars).foldl (fun d t => ainsert t ({ btype := some b.btype } : Bond) d) d) []


namespace V3F
open LineM WR

/-! ## §1 `Rendered` lines: splice + tokenize -/

theorem tokenizeLine_v30_joinBlanks (toks : List Str) (h : ∀ t ∈ toks, IsToken t) (lead trail : Nat)
    (gaps : List Nat) : tokenizeLine (v30Prefix ++ joinBlanks lead trail toks gaps) = mv toks := by
  have hall : ∀ t ∈ cs "M" :: cs "V30" :: toks, IsToken t := by
    intro t ht
    rcases List.mem_cons.1 ht with rfl | ht
    · exact isToken_M
    rcases List.mem_cons.1 ht with rfl | ht
    · exact isToken_V30
    · exact h t ht
  cases toks with
  | nil =>
    have e : v30Prefix ++ joinBlanks lead trail [] gaps
        = joinBlanks 0 ((lead + trail) + 1) [cs "M", cs "V30"] [1] := by
      simp [joinBlanks, v30Prefix, cs, List.replicate]
    rw [e]
    exact tokenizeLine_joinBlanks _ hall _ _ _
  | cons t ts =>
    have e : v30Prefix ++ joinBlanks lead trail (t :: ts) gaps
        = joinBlanks 0 trail (cs "M" :: cs "V30" :: t :: ts) (1 :: lead :: gaps) := by
      simp only [joinBlanks, List.headD_cons, List.tail_cons, List.replicate_zero, List.nil_append]
      rw [joinBlanks_succ]
      simp [v30Prefix, cs, List.replicate]
    rw [e]
    exact tokenizeLine_joinBlanks _ hall _ _ _

/-- one rendered logical line in front of lines that splice to `restS` -/
theorem rendered_splice {toks phys : List Str} (r : Rendered toks phys) (rest restS : List Str)
    (h : concatLinesWithDash rest = .ok restS) (hr : rest ≠ []) :
    ∃ full, tokenizeLine full = mv toks ∧ concatLinesWithDash (phys ++ rest) = .ok (full :: restS) := by
  obtain ⟨lead, trail, gaps, parts, last, hj, rfl, hd⟩ := r.spelled
  refine ⟨v30Prefix ++ parts.flatten ++ last, ?_, ?_⟩
  · rw [List.append_assoc, hj]
    exact tokenizeLine_v30_joinBlanks toks r.tokens lead trail gaps
  · rw [splice_any_split parts last rest hd]
    cases rest with
    | nil => exact absurd rfl hr
    | cons a b => simp only [expectedSplice, h]; rfl

/-- a list of rendered logical lines in front of lines that splice to `restS` -/
theorem allRendered_splice {α} (tk : α → List Str) {es : List α} {ps : List (List Str)}
    (r : AllRendered tk es ps) (rest restS : List Str)
    (h : concatLinesWithDash rest = .ok restS) (hr : rest ≠ []) :
    ∃ fulls, fulls.map tokenizeLine = es.map (fun e => mv (tk e)) ∧
      concatLinesWithDash (ps.flatten ++ rest) = .ok (fulls ++ restS) ∧ ps.flatten ++ rest ≠ [] := by
  induction r with
  | nil => exact ⟨[], rfl, by simpa using h, by simpa using hr⟩
  | cons r1 _ ih =>
    obtain ⟨fulls, h1, h2, h3⟩ := ih
    obtain ⟨full, g1, g2⟩ := rendered_splice r1 _ _ h2 h3
    refine ⟨full :: fulls, by simp [g1, h1], ?_, ?_⟩
    · rw [List.flatten_cons, List.append_assoc, g2]; rfl
    · rw [List.flatten_cons, List.append_assoc]
      exact List.append_ne_nil_of_right_ne_nil _ h3

theorem allRendered_length {α} (tk : α → List Str) {es : List α} {ps : List (List Str)}
    (r : AllRendered tk es ps) : ps.length = es.length := by
  induction r with
  | nil => rfl
  | cons _ _ ih => simp [ih]

end V3F

/-- **The V3000 connection table, every spelling.** -/
theorem graphAttributesV3000_spec (h0 h1 h2 h3 : Str) (line4 : List Str) (countsRest : List Str)
    (atoms : List AtomEntry) (bonds : List BondEntry) (tailLines tailSpliced : List Str)
    (p4 pCounts pBeginAtom pEndAtom pBeginBond pEndBond : List Str) (pAtoms pBonds : List (List Str))
    (hhdr : ∀ h ∈ [h0, h1, h2, h3], (startsWith h v30Prefix && endsWithChar h '-') = false)
    (r4 : Rendered line4 p4)
    (rCounts : Rendered (cs "COUNTS" :: natRepr atoms.length :: natRepr bonds.length :: countsRest) pCounts)
    (rBA : Rendered [cs "BEGIN", cs "ATOM"] pBeginAtom) (rEA : Rendered [cs "END", cs "ATOM"] pEndAtom)
    (rBB : Rendered [cs "BEGIN", cs "BOND"] pBeginBond) (rEB : Rendered [cs "END", cs "BOND"] pEndBond)
    (rAtoms : AllRendered AtomEntry.toks atoms pAtoms)
    (rBonds : AllRendered BondEntry.toks bonds pBonds)
    (hatoms : ∀ e ∈ atoms, e.Ok) (hbonds : ∀ b ∈ bonds, b.Ok)
    (hcounts : (natRepr atoms.length).length ≤ intMaxStrDigits ∧ (natRepr bonds.length).length ≤ intMaxStrDigits)
    (hnostar2 : ∀ b ∈ bonds, ¬ ((starsOf atoms).contains (b.a1 - 1) ∧ (starsOf atoms).contains (b.a2 - 1)))
    (hendpoints : ∀ b ∈ bonds, ∀ t ∈ b.tuples (starsOf atoms),
      (alookup t.1 (atomDictOf atoms)).isSome ∧ (alookup t.2 (atomDictOf atoms)).isSome)
    (htail : concatLinesWithDash tailLines = .ok tailSpliced) (htailne : tailLines ≠ []) :
    graphAttributesV3000
      (h0 :: h1 :: h2 :: h3 :: (p4 ++ pCounts ++ pBeginAtom ++ pAtoms.flatten ++ pEndAtom ++
        (if bonds.isEmpty then [] else pBeginBond ++ pBonds.flatten ++ pEndBond) ++ tailLines)) =
      .ok (atomDictOf atoms, bondDictOf (starsOf atoms) bonds) := by
  sorry

end Tucan
