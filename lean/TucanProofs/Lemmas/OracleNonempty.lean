import TucanProofs.Oracle
import TucanProofs.Lemmas.IsoBasics
/-!
# The bliss contract is satisfiable

The theorems that quantify over `CanonOracle` would be vacuous if no oracle met the contract.  This file
constructs one (non-computably: a canonical form chosen among all orderings of the vertices).
-/
namespace Tucan

namespace OracleNonempty

/-- what a canonical form shows: the class at every position, and the adjacency matrix -/
abbrev Code := List (Option Int) × List (List Bool)

/-- the form of `r` when its vertices are listed in the order `l` -/
def code (r : Graph) (l : List Nat) : Code :=
  (l.map (partOf? r), l.map fun a => l.map fun b => decide (b ∈ r.nbrs a))

/-- the forms of `r` under all orderings of its vertices -/
def Forms (r : Graph) (c : Code) : Prop := ∃ l : List Nat, l.Perm r.labels ∧ code r l = c

theorem forms_nonempty (r : Graph) : ∃ c, Forms r c := ⟨code r r.labels, r.labels, List.Perm.refl _, rfl⟩

/-- a permutation of a mapped list is a mapped permutation -/
theorem exists_map_of_perm_map (f : Nat → Nat) :
    ∀ (l' l₀ : List Nat), l'.Perm (l₀.map f) → ∃ l : List Nat, l.Perm l₀ ∧ l' = l.map f
  | [], l₀, h => by
    have h0 : l₀.map f = [] := h.symm.eq_nil
    have : l₀ = [] := List.map_eq_nil_iff.mp h0
    exact ⟨[], by rw [this], rfl⟩
  | x :: t, l₀, h => by
    have hx : x ∈ l₀.map f := h.mem_iff.mp List.mem_cons_self
    obtain ⟨a, ha, rfl⟩ := List.mem_map.mp hx
    have h1 : l₀.Perm (a :: l₀.erase a) := List.perm_cons_erase ha
    have h2 := h.trans (h1.map f)
    simp only [List.map_cons] at h2
    have h3 := (List.perm_cons _).mp h2
    obtain ⟨l, hl, rfl⟩ := exists_map_of_perm_map f t _ h3
    exact ⟨a :: l, (hl.cons a).trans h1.symm, rfl⟩

theorem partOf?_iso' {f : Nat → Nat} {r r' : Graph} (iso : Iso SamePart f r r') {a : Nat} (ha : a ∈ r.labels) :
    partOf? r' (f a) = partOf? r a := by
  obtain ⟨x, y, hx, hy, hxy⟩ := iso.attrs a ha
  unfold SamePart at hxy
  simp [partOf?, hx, hy, hxy]

/-- renaming the ordering along the isomorphism leaves the form unchanged -/
theorem code_map {f : Nat → Nat} {r r' : Graph} (iso : Iso SamePart f r r') (hw : r.WF) {l : List Nat}
    (hl : ∀ a ∈ l, a ∈ r.labels) : code r' (l.map f) = code r l := by
  unfold code
  simp only [List.map_map]
  refine Prod.ext ?_ ?_
  · exact List.map_congr_left fun a ha => partOf?_iso' iso (hl a ha)
  · refine List.map_congr_left fun a ha => List.map_congr_left fun b hb => ?_
    have := iso.adj_iff hw (hl a ha) (hl b hb)
    unfold Graph.Adj at this
    simp only [Function.comp_apply]
    exact decide_eq_decide.mpr this

theorem forms_iso {f : Nat → Nat} {r r' : Graph} (iso : Iso SamePart f r r') (hw : r.WF) :
    Forms r = Forms r' := by
  funext c
  apply propext
  constructor
  · rintro ⟨l, hl, rfl⟩
    exact ⟨l.map f, (hl.map f).trans iso.labels.symm, code_map iso hw fun a ha => hl.mem_iff.mp ha⟩
  · rintro ⟨l', hl', rfl⟩
    obtain ⟨l, hl, rfl⟩ := exists_map_of_perm_map f l' r.labels (hl'.trans iso.labels)
    exact ⟨l, hl, (code_map iso hw fun a ha => hl.mem_iff.mp ha).symm⟩

/-- the chosen form: depends on the set of forms only -/
noncomputable def canonCode (r : Graph) : Code := Classical.epsilon (Forms r)

theorem canonCode_mem (r : Graph) : Forms r (canonCode r) := Classical.epsilon_spec (forms_nonempty r)

/-- an ordering that realises the chosen form -/
noncomputable def order (r : Graph) : List Nat :=
  Classical.epsilon fun l : List Nat => l.Perm r.labels ∧ code r l = canonCode r

theorem order_spec (r : Graph) : (order r).Perm r.labels ∧ code r (order r) = canonCode r :=
  Classical.epsilon_spec (p := fun l : List Nat => l.Perm r.labels ∧ code r l = canonCode r) (canonCode_mem r)

theorem order_code_iso {f : Nat → Nat} {r r' : Graph} (iso : Iso SamePart f r r') (hw : r.WF) :
    code r (order r) = code r' (order r') := by
  rw [(order_spec r).2, (order_spec r').2, canonCode, canonCode, forms_iso iso hw]

end OracleNonempty

open OracleNonempty in
theorem CanonOracle.nonempty : Nonempty CanonOracle := by
  refine ⟨⟨OracleNonempty.order, fun r _ => (order_spec r).1, ?_⟩⟩
  intro f r r' hw _ iso i j a b a' b' hia hjb hia' hjb'
  have hc := order_code_iso iso hw
  unfold code at hc
  have h1 := congrArg (fun c => c.1[i]?) hc
  have h2 := congrArg (fun c => (c.2[i]?).bind (·[j]?)) hc
  simp only [List.getElem?_map, hia, hia', hjb, hjb', Option.map_some, Option.bind_some,
    Option.some.injEq, decide_eq_decide] at h1 h2
  exact ⟨h1, h2⟩

end Tucan
