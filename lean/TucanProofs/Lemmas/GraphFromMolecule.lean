import TucanProofs.Lemmas.IsoBasics
import TucanProofs.Lemmas.NxEdges
/-!
# networkx container lemmas III: `graph_from_molecule`

`graphFromMolecule atoms bonds` builds the graph from an atom dictionary and a bond dictionary and
renumbers the nodes consecutively (`convert_node_labels_to_integers`).  For dictionaries as the readers
and the parser produce them — atom keys `0 … n-1` in order, every bond between two different existing
atoms, no bond listed twice in either orientation — the result is characterised here.
-/
namespace Tucan

/-- the atom dictionary has keys `0, 1, …, n-1` in this order -/
def ConsecutiveKeys (atoms : List (Int × Atom)) : Prop :=
  atoms.map (·.1) = (List.range atoms.length).map (fun (i : Nat) => (i : Int))

/-- every bond joins two different existing atoms, and no unordered pair occurs twice -/
def GoodBonds (n : Nat) (bonds : List ((Int × Int) × Bond)) : Prop :=
  (∀ b ∈ bonds, 0 ≤ b.1.1 ∧ b.1.1 < n ∧ 0 ≤ b.1.2 ∧ b.1.2 < n ∧ b.1.1 ≠ b.1.2) ∧
  (bonds.map fun b => if b.1.1 ≤ b.1.2 then (b.1.1, b.1.2) else (b.1.2, b.1.1)).Nodup

namespace GFM
open Graph

/-! ### association lists -/

theorem alookup_of_mem {ν} {k : Nat} {v : ν} : ∀ {l : List (Nat × ν)}, (l.map (·.1)).Nodup →
    (k, v) ∈ l → alookup k l = some v
  | [], _, h => by simp at h
  | (k0, v0) :: r, hnd, h => by
    simp only [List.map_cons, List.nodup_cons] at hnd
    simp only [alookup]
    rcases List.mem_cons.1 h with h | h
    · cases h; simp
    · have hne : k0 ≠ k := fun he => hnd.1 (he ▸ List.mem_map_of_mem (f := (·.1)) h)
      have : (k0 == k) = false := by simpa using hne
      rw [this]
      exact alookup_of_mem hnd.2 h

/-! ### one `addEdge` between two existing, distinct nodes, whatever is stored for the pair -/

theorem addEdge_step (h : Graph) (a b : Nat) (d : Bond) (ha : a ∈ h.labels) (hb : b ∈ h.labels)
    (hab : a ≠ b) (hnd : ∀ x, ((h.nbrsD x).map (·.1)).Nodup) :
    (h.addEdge a b d).labels = h.labels ∧
    (∀ x, (h.addEdge a b d).attrs? x = h.attrs? x) ∧
    (∀ x, (((h.addEdge a b d).nbrsD x).map (·.1)).Nodup) ∧
    (∀ x y e, (y, e) ∈ (h.addEdge a b d).nbrsD x ↔
      (x = a ∧ y = b ∧ e = ((h.edgeData? a b).getD {}).update d) ∨
      (x = b ∧ y = a ∧ e = ((h.edgeData? a b).getD {}).update d) ∨
      (¬ (x = a ∧ y = b) ∧ ¬ (x = b ∧ y = a) ∧ (y, e) ∈ h.nbrsD x)) := by
  generalize hdd : ((h.edgeData? a b).getD {}).update d = dd
  have heq : h.addEdge a b d = (h.setNbr a b dd).setNbr b a dd := by
    simp only [Graph.addEdge, NxRelabel.addNode_of_mem ha, NxRelabel.addNode_of_mem hb, hdd]
  rw [heq]
  have hb' : b ∈ (h.setNbr a b dd).labels := by rw [NxRelabel.labels_setNbr]; exact hb
  have hN1 : ∀ x, (h.setNbr a b dd).nbrsD x
      = if x = a then ainsert b dd (h.nbrsD a) else h.nbrsD x := by
    intro x; rw [NxRelabel.nbrsD_setNbr]; simp [ha]
  have hN2 : ∀ x, ((h.setNbr a b dd).setNbr b a dd).nbrsD x
      = if x = b then ainsert a dd (h.nbrsD b)
        else if x = a then ainsert b dd (h.nbrsD a) else h.nbrsD x := by
    intro x
    rw [NxRelabel.nbrsD_setNbr]
    by_cases hxb : x = b
    · have hba : ¬ b = a := fun h => hab h.symm
      simp [hxb, hb', hN1, hba]
    · simp [hxb, hN1]
  refine ⟨by rw [NxRelabel.labels_setNbr, NxRelabel.labels_setNbr],
    fun x => by rw [NxRelabel.attrs?_setNbr, NxRelabel.attrs?_setNbr], ?_, ?_⟩
  · intro x
    rw [hN2]
    split
    · exact NxRelabel.nodup_keys_ainsert _ _ _ (hnd b)
    · split
      · exact NxRelabel.nodup_keys_ainsert _ _ _ (hnd a)
      · exact hnd x
  · intro x y e
    rw [hN2]
    by_cases hxb : x = b
    · rw [if_pos hxb, NxRelabel.mem_ainsert _ _ _ _ _ (hnd b)]
      subst hxb
      constructor
      · rintro (h' | h')
        · exact Or.inr (Or.inl ⟨rfl, h'⟩)
        · exact Or.inr (Or.inr ⟨fun hc => hab hc.1.symm, fun hc => h'.1 hc.2, h'.2⟩)
      · rintro (h' | h' | h')
        · exact absurd h'.1.symm hab
        · exact Or.inl h'.2
        · exact Or.inr ⟨fun hc => h'.2.1 ⟨rfl, hc⟩, h'.2.2⟩
    · rw [if_neg hxb]
      by_cases hxa : x = a
      · rw [if_pos hxa, NxRelabel.mem_ainsert _ _ _ _ _ (hnd a)]
        subst hxa
        constructor
        · rintro (h' | h')
          · exact Or.inl ⟨rfl, h'⟩
          · exact Or.inr (Or.inr ⟨fun hc => h'.1 hc.2, fun hc => hxb hc.1, h'.2⟩)
        · rintro (h' | h' | h')
          · exact Or.inl h'.2
          · exact absurd h'.1 hxb
          · exact Or.inr ⟨fun hc => h'.1 ⟨rfl, hc⟩, h'.2.2⟩
      · rw [if_neg hxa]
        constructor
        · intro h'
          exact Or.inr (Or.inr ⟨fun hc => hxa hc.1, fun hc => hxb hc.1, h'⟩)
        · rintro (h' | h' | h')
          · exact absurd h'.1 hxa
          · exact absurd h'.1 hxb
          · exact h'.2.2

/-! ### the two passes of `add_edges_from`, on natural-number edge lists -/

/-- the edge with its record blanked (first pass: `add_edges_from(bonds.keys())`) -/
def blank : Nat × Nat × Bond → Nat × Nat × Bond := fun (u, v, _) => (u, v, {})

theorem norm_blank (e : Nat × Nat × Bond) : NxE.norm (blank e) = NxE.norm e := rfl

theorem fresh_of_nodup {done r : List (Nat × Nat × Bond)} {t : Nat × Nat × Bond}
    (h : ((done ++ t :: r).map NxE.norm).Nodup) : ∀ s ∈ done ++ r, NxE.norm s ≠ NxE.norm t := by
  have hp : (done ++ t :: r).Perm (t :: (done ++ r)) := List.perm_middle
  have h' := (hp.map NxE.norm).nodup_iff.1 h
  rw [List.map_cons, List.nodup_cons] at h'
  intro s hs he
  exact h'.1 (he ▸ List.mem_map_of_mem hs)

/-- state of the second pass: the bonds in `done` carry their record, those in `rest` still `{}` -/
def P2 (done rest : List (Nat × Nat × Bond)) (a w : Nat) (d : Bond) : Prop :=
  (a, w, d) ∈ done ∨ (w, a, d) ∈ done ∨ (d = {} ∧ ∃ d0, (a, w, d0) ∈ rest ∨ (w, a, d0) ∈ rest)

theorem pass2 {L : List Nat} {A : Nat → Option Atom} : ∀ (rest done : List (Nat × Nat × Bond))
    (h : Graph), h.labels = L → (∀ a, h.attrs? a = A a) →
    (∀ a, ((h.nbrsD a).map (·.1)).Nodup) →
    (∀ a w d, (w, d) ∈ h.nbrsD a ↔ P2 done rest a w d) →
    (∀ e ∈ rest, e.1 ∈ L ∧ e.2.1 ∈ L ∧ e.1 ≠ e.2.1) → ((done ++ rest).map NxE.norm).Nodup →
    NxE.Inv L A (rest.foldl (fun h (u, v, d) => h.addEdge u v d) h) (done ++ rest)
  | [], done, h, hl, hat, hk, hn, _, _ => by
    rw [List.append_nil, List.foldl_nil]
    refine ⟨hl, hat, ?_, hk⟩
    intro a w d
    rw [hn]
    unfold P2
    simp
  | (u, v, d) :: r, done, h, hl, hat, hk, hn, hes, hnd => by
    rw [List.foldl_cons, List.append_cons]
    obtain ⟨hu, hv, hne⟩ := hes _ List.mem_cons_self
    simp only at hu hv hne
    have hfresh := fresh_of_nodup hnd
    have hf : ∀ x y e, (x, y, e) ∈ done ++ r → ¬ (x = u ∧ y = v) ∧ ¬ (x = v ∧ y = u) := by
      intro x y e hm
      have := hfresh _ hm
      rw [Ne, NxE.norm_eq_norm_iff] at this
      exact ⟨fun hc => this (Or.inl hc), fun hc => this (Or.inr hc)⟩
    have hu' : u ∈ h.labels := hl ▸ hu
    have hv' : v ∈ h.labels := hl ▸ hv
    obtain ⟨s1, s2, s3, s4⟩ := addEdge_step h u v d hu' hv' hne hk
    have hdd : ((h.edgeData? u v).getD {}).update d = d := by
      have hm : (v, ({} : Bond)) ∈ h.nbrsD u :=
        (hn u v {}).2 (Or.inr (Or.inr ⟨rfl, d, Or.inl List.mem_cons_self⟩))
      rw [NxRelabel.edgeData?_eq, alookup_of_mem (hk u) hm]
      exact NxRelabel.Bond.update_empty d
    rw [hdd] at s4
    refine pass2 r (done ++ [(u, v, d)]) _ (s1.trans hl) (fun a => (s2 a).trans (hat a)) s3 ?_
      (fun e he => hes e (List.mem_cons_of_mem _ he)) (by rw [← List.append_cons]; exact hnd)
    intro x y e
    rw [s4, hn]
    unfold P2
    simp only [List.mem_append, List.mem_cons, Prod.mk.injEq, List.not_mem_nil, or_false]
    constructor
    · rintro (⟨rfl, rfl, rfl⟩ | ⟨rfl, rfl, rfl⟩ | ⟨n1, n2, hp⟩)
      · exact Or.inl (Or.inr ⟨rfl, rfl, rfl⟩)
      · exact Or.inr (Or.inl (Or.inr ⟨rfl, rfl, rfl⟩))
      · rcases hp with hp | hp | ⟨he, d0, hp | hp⟩
        · exact Or.inl (Or.inl hp)
        · exact Or.inr (Or.inl (Or.inl hp))
        · rcases hp with hp | hp
          · exact absurd ⟨hp.1, hp.2.1⟩ n1
          · exact Or.inr (Or.inr ⟨he, d0, Or.inl hp⟩)
        · rcases hp with hp | hp
          · exact absurd ⟨hp.2.1, hp.1⟩ n2
          · exact Or.inr (Or.inr ⟨he, d0, Or.inr hp⟩)
    · rintro ((hp | hp) | (hp | hp) | ⟨he, d0, hp | hp⟩)
      · have := hf _ _ _ (List.mem_append_left _ hp)
        exact Or.inr (Or.inr ⟨this.1, this.2, Or.inl hp⟩)
      · exact Or.inl hp
      · have := hf _ _ _ (List.mem_append_left _ hp)
        exact Or.inr (Or.inr ⟨fun hc => this.2 ⟨hc.2, hc.1⟩, fun hc => this.1 ⟨hc.2, hc.1⟩,
          Or.inr (Or.inl hp)⟩)
      · exact Or.inr (Or.inl ⟨hp.2.1, hp.1, hp.2.2⟩)
      · have := hf _ _ _ (List.mem_append_right _ hp)
        exact Or.inr (Or.inr ⟨this.1, this.2, Or.inr (Or.inr ⟨he, d0, Or.inl (Or.inr hp)⟩)⟩)
      · have := hf _ _ _ (List.mem_append_right _ hp)
        exact Or.inr (Or.inr ⟨fun hc => this.2 ⟨hc.2, hc.1⟩, fun hc => this.1 ⟨hc.2, hc.1⟩,
          Or.inr (Or.inr ⟨he, d0, Or.inr (Or.inr hp)⟩)⟩)

/-- both passes: starting without edges, every listed bond ends up with its record -/
theorem twoPass {L : List Nat} {A : Nat → Option Atom} (es : List (Nat × Nat × Bond)) (h : Graph)
    (inv : NxE.Inv L A h []) (hes : ∀ e ∈ es, e.1 ∈ L ∧ e.2.1 ∈ L ∧ e.1 ≠ e.2.1)
    (hnd : (es.map NxE.norm).Nodup) :
    NxE.Inv L A (es.foldl (fun h (u, v, d) => h.addEdge u v d)
      ((es.map blank).foldl (fun h (u, v, d) => h.addEdge u v d) h)) es := by
  have i1 := NxE.Inv.foldl (es.map blank) [] h inv
    (by
      intro e he
      obtain ⟨e0, he0, rfl⟩ := List.mem_map.1 he
      exact hes e0 he0)
    (by
      rw [List.nil_append, List.map_map]
      exact hnd)
  rw [List.nil_append] at i1
  have := pass2 es [] _ i1.labels i1.attrs i1.keys (by
    intro a w d
    rw [i1.nbrs]
    unfold P2
    simp only [List.mem_map, List.not_mem_nil, false_or]
    constructor
    · rintro (⟨⟨u, v, d0⟩, hm, he⟩ | ⟨⟨u, v, d0⟩, hm, he⟩)
      · simp only [blank, Prod.mk.injEq] at he
        obtain ⟨rfl, rfl, rfl⟩ := he
        exact ⟨rfl, d0, Or.inl hm⟩
      · simp only [blank, Prod.mk.injEq] at he
        obtain ⟨rfl, rfl, rfl⟩ := he
        exact ⟨rfl, d0, Or.inr hm⟩
    · rintro ⟨rfl, d0, hm | hm⟩
      · exact Or.inl ⟨_, hm, rfl⟩
      · exact Or.inr ⟨_, hm, rfl⟩) hes (by rw [List.nil_append]; exact hnd)
  rw [List.nil_append] at this
  exact this

/-! ### the pieces of `graphFromMolecule` -/

/-- what `addInvariantCode` returns when it succeeds -/
def inv' (a : Atom) : Atom := { a with inv := some [a.z.getD 0, a.mass.getD 0, a.rad.getD 0] }

theorem addInvariantCode_ok {a : Atom} (h : a.z.isSome) : addInvariantCode a = .ok (inv' a) := by
  unfold addInvariantCode inv'
  cases hz : a.z with
  | none => simp [hz] at h
  | some z => simp

theorem mapM_ok : ∀ (atoms : List (Int × Atom)), (∀ a ∈ atoms, a.2.z.isSome) →
    atoms.mapM (fun (k, a) => do let a' ← addInvariantCode a; pure (k, a'))
      = (.ok (atoms.map fun p => (p.1, inv' p.2)) : PyM (List (Int × Atom)))
  | [], _ => rfl
  | (k, a) :: r, h => by
    have ih := mapM_ok r (fun a ha => h a (List.mem_cons_of_mem _ ha))
    have h1 := addInvariantCode_ok (h (k, a) List.mem_cons_self)
    simp only at h1
    rw [List.mapM_cons, ih]
    simp only [h1]
    rfl

theorem allKeys_eq : ∀ (bonds : List ((Int × Int) × Bond)) (ks : List Int),
    (∀ b ∈ bonds, b.1.1 ∈ ks ∧ b.1.2 ∈ ks) →
    bonds.foldl (fun ks ((u, v), _) => addIfMissing v (addIfMissing u ks)) ks = ks
  | [], _, _ => rfl
  | ((u, v), d) :: r, ks, h => by
    obtain ⟨hu, hv⟩ := h _ List.mem_cons_self
    simp only at hu hv
    rw [List.foldl_cons]
    have h1 : addIfMissing u ks = ks := by
      unfold addIfMissing; simp [hu]
    have h2 : addIfMissing v ks = ks := by
      unfold addIfMissing; simp [hv]
    simp only [h1, h2]
    exact allKeys_eq r ks (fun b hb => h b (List.mem_cons_of_mem _ hb))

theorem indexOf?_range' : ∀ (n s i : Nat), i < n →
    indexOf? ((s + i : Nat) : Int) ((List.range' s n).map fun (k : Nat) => (k : Int)) = some i
  | 0, _, _, h => by omega
  | n + 1, s, 0, _ => by
    simp [List.range'_succ, indexOf?]
  | n + 1, s, i + 1, h => by
    have ih := indexOf?_range' n (s + 1) i (by omega)
    have e : s + 1 + i = s + (i + 1) := by omega
    rw [e] at ih
    rw [List.range'_succ, List.map_cons, indexOf?, ih]
    have : (((s + (i + 1) : Nat) : Int) == (s : Int)) = false := by
      simp only [beq_eq_false_iff_ne, ne_eq]; omega
    rw [this]
    rfl

def idxOf (ks : List Int) (k : Int) : Nat := (indexOf? k ks).getD 0

theorem idxOf_range (n : Nat) (k : Int) (h0 : 0 ≤ k) (h1 : k < n) :
    idxOf ((List.range n).map fun (i : Nat) => (i : Int)) k = k.toNat := by
  have := indexOf?_range' n 0 k.toNat (by omega)
  rw [Nat.zero_add, Int.toNat_of_nonneg h0, ← List.range_eq_range'] at this
  unfold idxOf
  rw [this]; rfl

/-- the part of `graphFromMolecule` after the key list has been computed -/
def core (ks : List Int) (atoms' : List (Int × Atom)) (bonds : List ((Int × Int) × Bond)) : Graph :=
  let idx (k : Int) : Nat := (indexOf? k ks).getD 0
  let g0 : Graph := ⟨atoms'.map fun (k, a) => ⟨idx k, a, []⟩⟩
  let g1 := bonds.foldl (fun g ((u, v), _) => g.addEdge (idx u) (idx v) {}) g0
  bonds.foldl (fun g ((u, v), d) => g.addEdge (idx u) (idx v) d) g1

theorem graphFromMolecule_eq (atoms atoms' : List (Int × Atom)) (bonds : List ((Int × Int) × Bond))
    (hmap : atoms.mapM (fun (k, a) => do let a' ← addInvariantCode a; pure (k, a')) = .ok atoms') :
    graphFromMolecule atoms bonds = .ok ((core
      (bonds.foldl (fun ks ((u, v), _) => addIfMissing v (addIfMissing u ks)) (atoms'.map (·.1)))
      atoms' bonds).relabelCopy [], atoms') := by
  unfold graphFromMolecule
  rw [hmap]
  rfl

theorem foldl_conv (idx : Int → Nat) (F : Bond → Bond) : ∀ (bonds : List ((Int × Int) × Bond))
    (g : Graph), (∀ b ∈ bonds, idx b.1.1 = b.1.1.toNat ∧ idx b.1.2 = b.1.2.toNat) →
    bonds.foldl (fun g b => g.addEdge (idx b.1.1) (idx b.1.2) (F b.2)) g =
      (bonds.map fun b => (b.1.1.toNat, b.1.2.toNat, F b.2)).foldl
        (fun h (u, v, d) => h.addEdge u v d) g
  | [], _, _ => rfl
  | b :: r, g, h => by
    obtain ⟨h1, h2⟩ := h b List.mem_cons_self
    rw [List.foldl_cons, List.map_cons, List.foldl_cons, h1, h2]
    exact foldl_conv idx F r _ (fun b hb => h b (List.mem_cons_of_mem _ hb))

/-- the bond dictionary as a list of edges between natural numbers -/
def natEdges (bonds : List ((Int × Int) × Bond)) : List (Nat × Nat × Bond) :=
  bonds.map fun b => (b.1.1.toNat, b.1.2.toNat, b.2)

theorem core_eq (ks : List Int) (atoms' : List (Int × Atom)) (bonds : List ((Int × Int) × Bond))
    (h : ∀ b ∈ bonds, idxOf ks b.1.1 = b.1.1.toNat ∧ idxOf ks b.1.2 = b.1.2.toNat) :
    core ks atoms' bonds =
      (natEdges bonds).foldl (fun h (u, v, d) => h.addEdge u v d)
        (((natEdges bonds).map blank).foldl (fun h (u, v, d) => h.addEdge u v d)
          ⟨atoms'.map fun p => ⟨idxOf ks p.1, p.2, []⟩⟩) := by
  have e1 := foldl_conv (idxOf ks) (fun _ => {}) bonds ⟨atoms'.map fun p => ⟨idxOf ks p.1, p.2, []⟩⟩ h
  have e2 := foldl_conv (idxOf ks) id bonds
    (bonds.foldl (fun g b => g.addEdge (idxOf ks b.1.1) (idxOf ks b.1.2) {})
      ⟨atoms'.map fun p => ⟨idxOf ks p.1, p.2, []⟩⟩) h
  have e3 : (natEdges bonds).map blank = bonds.map fun b => (b.1.1.toNat, b.1.2.toNat, {}) := by
    unfold natEdges; rw [List.map_map]; rfl
  rw [e3, ← e1]
  exact e2

end GFM

/-- **`graph_from_molecule` on reader-shaped input.**  Nodes `0 … n-1` in order; node `i` carries the
`i`-th atom's attributes with the invariant code added; `i` and `j` are adjacent exactly when the bond
dictionary lists them (in either orientation), with that bond's record. -/
theorem graphFromMolecule_spec (atoms : List (Int × Atom)) (bonds : List ((Int × Int) × Bond))
    (hk : ConsecutiveKeys atoms) (hb : GoodBonds atoms.length bonds)
    (hz : ∀ a ∈ atoms, a.2.z.isSome) :
    ∃ g post, graphFromMolecule atoms bonds = .ok (g, post) ∧
      g.labels = List.range atoms.length ∧ g.WF ∧ g.Simple ∧
      (∀ i (hi : i < atoms.length), ∃ x, addInvariantCode (atoms[i]).2 = .ok x ∧ g.attrs? i = some x) ∧
      (∀ i j d, (j, d) ∈ g.nbrsD i ↔
        (((i : Int), (j : Int)), d) ∈ bonds ∨ (((j : Int), (i : Int)), d) ∈ bonds) := by
  obtain ⟨hb1, hb2⟩ := hb
  have hmap := GFM.mapM_ok atoms hz
  have hkeys' : (atoms.map fun p => (p.1, GFM.inv' p.2)).map (·.1)
      = (List.range atoms.length).map (fun (i : Nat) => (i : Int)) := by
    rw [List.map_map]; exact hk
  have hmemks : ∀ k : Int, 0 ≤ k → k < atoms.length →
      k ∈ (List.range atoms.length).map (fun (i : Nat) => (i : Int)) := by
    intro k h0 h1
    exact List.mem_map.2 ⟨k.toNat, List.mem_range.2 (by omega), Int.toNat_of_nonneg h0⟩
  have hall := GFM.allKeys_eq bonds _ (fun b hb =>
    ⟨hmemks _ (hb1 b hb).1 (hb1 b hb).2.1, hmemks _ (hb1 b hb).2.2.1 (hb1 b hb).2.2.2.1⟩)
  have heq := GFM.graphFromMolecule_eq atoms _ bonds hmap
  rw [hkeys', hall] at heq
  have hidx : ∀ b ∈ bonds,
      GFM.idxOf ((List.range atoms.length).map (fun (i : Nat) => (i : Int))) b.1.1 = b.1.1.toNat ∧
      GFM.idxOf ((List.range atoms.length).map (fun (i : Nat) => (i : Int))) b.1.2 = b.1.2.toNat :=
    fun b hb => ⟨GFM.idxOf_range _ _ (hb1 b hb).1 (hb1 b hb).2.1,
      GFM.idxOf_range _ _ (hb1 b hb).2.2.1 (hb1 b hb).2.2.2.1⟩
  rw [GFM.core_eq _ _ _ hidx] at heq
  have hidxN : ∀ i : Nat, i < atoms.length →
      GFM.idxOf ((List.range atoms.length).map (fun (i : Nat) => (i : Int))) (i : Int) = i := by
    intro i hi
    rw [GFM.idxOf_range _ _ (by omega) (by omega)]
    exact Int.toNat_natCast i
  -- the graph before the edges
  generalize hg0 : (⟨(atoms.map fun p => (p.1, GFM.inv' p.2)).map fun p =>
    ⟨GFM.idxOf ((List.range atoms.length).map (fun (i : Nat) => (i : Int))) p.1, p.2, []⟩⟩ : Graph)
    = g0 at heq
  have hl0 : g0.labels = List.range atoms.length := by
    have h1 : g0.labels = (atoms.map (·.1)).map
        (GFM.idxOf ((List.range atoms.length).map (fun (i : Nat) => (i : Int)))) := by
      subst hg0
      simp only [Graph.labels, List.map_map]
      rfl
    rw [h1, hk, List.map_map]
    conv => rhs; rw [← List.map_id (List.range atoms.length)]
    apply List.map_congr_left
    intro i hi
    exact hidxN i (List.mem_range.1 hi)
  have hnd0 : g0.labels.Nodup := hl0 ▸ List.nodup_range
  have hkey : ∀ i (hi : i < atoms.length), (atoms[i]).1 = (i : Int) := by
    intro i hi
    have := congrArg (fun l => l[i]?) hk
    simpa [hi] using this
  have ha0 : ∀ i (hi : i < atoms.length), g0.attrs? i = some (GFM.inv' (atoms[i]).2) := by
    intro i hi
    have hm : (⟨GFM.idxOf ((List.range atoms.length).map (fun (i : Nat) => (i : Int))) (atoms[i]).1,
        GFM.inv' (atoms[i]).2, []⟩ : Node) ∈ g0.nodes := by
      subst hg0
      simp only [List.map_map]
      exact List.mem_map.2 ⟨atoms[i], List.getElem_mem hi, rfl⟩
    have := NxRelabel.attrs?_of_mem hnd0 hm
    simp only [hkey i hi, hidxN i hi] at this
    exact this
  have hn0 : ∀ x, g0.nbrsD x = [] := by
    apply NxRelabel.nbrsD_eq_nil_of
    intro m hm
    subst hg0
    obtain ⟨p, -, rfl⟩ := List.mem_map.1 hm
    rfl
  have inv0 : NxE.Inv (List.range atoms.length) g0.attrs? g0 [] :=
    ⟨hl0, fun _ => rfl, fun a w d => by rw [hn0]; simp, fun a => by rw [hn0]; exact List.nodup_nil⟩
  -- the edge list
  have hes : ∀ e ∈ GFM.natEdges bonds,
      e.1 ∈ List.range atoms.length ∧ e.2.1 ∈ List.range atoms.length ∧ e.1 ≠ e.2.1 := by
    intro e he
    obtain ⟨b, hb, rfl⟩ := List.mem_map.1 he
    obtain ⟨h1, h2, h3, h4, h5⟩ := hb1 b hb
    refine ⟨List.mem_range.2 ?_, List.mem_range.2 ?_, ?_⟩ <;> simp only <;> omega
  have hnd : ((GFM.natEdges bonds).map NxE.norm).Nodup := by
    unfold GFM.natEdges
    rw [List.map_map]
    unfold List.Nodup at hb2 ⊢
    rw [List.pairwise_map] at hb2 ⊢
    refine List.Pairwise.imp_of_mem ?_ hb2
    intro b b' hb hb' hne hc
    apply hne
    obtain ⟨h1, h2, h3, h4, h5⟩ := hb1 b hb
    obtain ⟨h1', h2', h3', h4', h5'⟩ := hb1 b' hb'
    simp only [Function.comp] at hc
    rw [NxE.norm_eq_norm_iff] at hc
    split <;> split <;> simp only [Prod.mk.injEq] <;> omega
  have hmemE : ∀ i j d, (i, j, d) ∈ GFM.natEdges bonds ↔ (((i : Int), (j : Int)), d) ∈ bonds := by
    intro i j d
    unfold GFM.natEdges
    rw [List.mem_map]
    constructor
    · rintro ⟨⟨⟨u, v⟩, d'⟩, hb, he⟩
      obtain ⟨h1, h2, h3, h4, h5⟩ := hb1 _ hb
      simp only [Prod.mk.injEq] at he h1 h3
      obtain ⟨rfl, rfl, rfl⟩ := he
      rw [Int.toNat_of_nonneg h1, Int.toNat_of_nonneg h3]
      exact hb
    · intro hb
      exact ⟨_, hb, by simp⟩
  have inv2 := GFM.twoPass (GFM.natEdges bonds) g0 inv0 hes hnd
  generalize (GFM.natEdges bonds).foldl (fun h (u, v, d) => h.addEdge u v d)
    (((GFM.natEdges bonds).map GFM.blank).foldl (fun h (u, v, d) => h.addEdge u v d) g0) = g2
    at heq inv2
  have hnd2 : g2.labels.Nodup := inv2.labels ▸ List.nodup_range
  have hw2 : g2.WF := by
    refine NxE.WF.of_obs hnd2 inv2.keys ?_
    intro a w d he
    have he' := (inv2.nbrs a w d).1 he
    refine ⟨?_, (inv2.nbrs w a d).2 he'.symm⟩
    rw [inv2.labels]
    rcases he' with h | h
    · exact (hes _ h).2.1
    · exact (hes _ h).1
  have hs2 : g2.Simple := by
    refine NxE.Simple.of_obs hnd2 ?_
    intro a w d he
    rcases (inv2.nbrs a w d).1 he with h | h
    · exact fun hc => (hes _ h).2.2 hc.symm
    · exact (hes _ h).2.2
  obtain ⟨rl, hwg, hsg, hlg⟩ := Graph.relabelCopy_spec g2 [] hw2 hs2 (fun a _ b _ h => h)
  have hid : Graph.mapGet [] = id := rfl
  rw [hid] at rl
  rw [hid, List.map_id, inv2.labels] at hlg
  refine ⟨_, _, heq, hlg, hwg, hsg, ?_, ?_⟩
  · intro i hi
    refine ⟨GFM.inv' (atoms[i]).2, GFM.addInvariantCode_ok (hz _ (List.getElem_mem hi)), ?_⟩
    have := rl.attrs i (by rw [inv2.labels]; exact List.mem_range.2 hi)
    rw [id] at this
    rw [this, inv2.attrs, ha0 i hi]
  · intro i j d
    rw [← hmemE, ← hmemE, ← inv2.nbrs]
    by_cases hi : i ∈ g2.labels
    · have hp := rl.nbrs i hi
      have : (fun (e : Nat × Bond) => (id e.1, e.2)) = id := rfl
      rw [this, List.map_id, id] at hp
      exact hp.mem_iff
    · have h1 : (g2.relabelCopy []).nbrsD i = [] :=
        NxRelabel.nbrsD_of_not_mem (by rw [hlg, ← inv2.labels]; exact hi)
      rw [h1, NxRelabel.nbrsD_of_not_mem hi]

end Tucan
