import TucanProofs.Spec
import TucanProofs.Lemmas.Ranks
set_option linter.unusedSimpArgs false
/-!
# S2 — one partition step is equivariant under relabelling in any listing order

`partitionMoleculeByAttribute` is the model of `partition_molecule_by_attribute`.  Its result is
characterised (`partition_spec`) and shown to commute with every `Iso` that preserves the attribute
used as key (`partition_equivariant`).

The two facts about the networkx container that are used (`copy`, `set_node_attributes`) enter as
the hypotheses `CopySpec` / `MapAttrsSpec`; they are proved in `Lemmas/NxRelabel.lean` and supplied
where the property theorems are assembled.
-/
namespace Tucan

def CopySpec : Prop := ∀ g : Graph, g.WF → g.Simple →
  Relabel id g g.copy ∧ g.copy.WF ∧ g.copy.Simple ∧ g.copy.labels = g.labels

def MapAttrsSpec : Prop := ∀ (g : Graph) (F : Nat → Atom → Atom),
  (g.mapAttrs F).labels = g.labels ∧
  (∀ a, (g.mapAttrs F).nbrsD a = g.nbrsD a) ∧
  (∀ a, (g.mapAttrs F).attrs? a = (g.attrs? a).map (F a)) ∧
  (g.WF → (g.mapAttrs F).WF) ∧ (g.Simple → (g.mapAttrs F).Simple)

/-! ### total versions of the key and sequence lookups -/

/-- `m.nodes[a][attribute]`, `[]` when the node or the key is missing -/
def keyD (g : Graph) (attr : AttrName) (a : Nat) : Key := ((g.attrs? a).bind (·.key attr)).getD []

/-- `attribute_sequence(m, a, attribute)` as a total function -/
def seqOf (g : Graph) (attr : AttrName) (a : Nat) : Seq :=
  keyD g attr a :: sortKDesc ((g.nbrs a).map (keyD g attr))

theorem mapM_ok_eq_map {α β} (f : α → PyM β) (f' : α → β) :
    ∀ (l : List α) (r : List β), (∀ x ∈ l, ∀ y, f x = .ok y → y = f' x) → l.mapM f = .ok r → r = l.map f'
  | [], r, _, h => by simp [List.mapM_nil, pure, Except.pure] at h; simp [h]
  | a :: l, r, hf, h => by
    rw [List.mapM_cons] at h
    cases ha : f a with
    | error e => simp [ha, bind, Except.bind] at h
    | ok b =>
      cases hl : l.mapM f with
      | error e => simp [ha, hl, bind, Except.bind] at h
      | ok bs =>
        simp [ha, hl, bind, Except.bind, pure, Except.pure] at h
        have hb := hf a (by simp) b ha
        have hbs := mapM_ok_eq_map f f' l bs (fun x hx => hf x (by simp [hx])) hl
        subst h; simp [hb, hbs]

theorem Graph.attrs_ok {g : Graph} {a : Nat} {x : Atom} (h : g.attrs a = .ok x) : g.attrs? a = some x := by
  unfold Graph.attrs at h; unfold Graph.attrs?
  cases hf : g.find? a with
  | none => simp [hf] at h
  | some n => simp [hf] at h; simp [h]

theorem Graph.neighbors_ok {g : Graph} {a : Nat} {ns : List Nat} (h : g.neighbors a = .ok ns) : ns = g.nbrs a := by
  unfold Graph.neighbors at h; unfold Graph.nbrs
  cases hf : g.find? a with
  | none => simp [hf] at h
  | some n => simp [hf] at h; simp [h]

theorem key_ok {g : Graph} {attr : AttrName} {a : Nat} {x : Atom} {k : Key} (hx : g.attrs? a = some x)
    (hk : (x.key attr).elim (Except.error PyErr.keyError) Except.ok = (.ok k : PyM Key)) : k = keyD g attr a := by
  unfold keyD
  cases hkey : x.key attr with
  | none => simp [hkey, Option.elim] at hk
  | some k' => simp [hkey, Option.elim] at hk; simp [hx, hkey, hk]

/-- whenever `attribute_sequence` returns, it returns `seqOf` -/
theorem attributeSequence_ok {g : Graph} {a : Nat} {attr : AttrName} {s : Seq}
    (h : attributeSequence g a attr = .ok s) : s = seqOf g attr a := by
  unfold attributeSequence at h
  cases h1 : g.attrs a with
  | error e => simp [h1, bind, Except.bind] at h
  | ok x =>
    simp only [h1, bind, Except.bind] at h
    cases h2 : (x.key attr).elim (Except.error PyErr.keyError) Except.ok with
    | error e => simp [h2] at h
    | ok own =>
      simp only [h2] at h
      cases h3 : g.neighbors a with
      | error e => simp [h3] at h
      | ok ns =>
        simp only [h3] at h
        split at h
        · simp at h
        · rename_i nk hnk
          simp [pure, Except.pure] at h
          have hown := key_ok (Graph.attrs_ok h1) h2
          have hns := Graph.neighbors_ok h3
          have hnk' : nk = ns.map (keyD g attr) := by
            refine mapM_ok_eq_map _ (keyD g attr) ns nk ?_ hnk
            intro n _ y hy
            cases h4 : g.attrs n with
            | error e => simp [h4, bind, Except.bind] at hy
            | ok xn =>
              simp only [h4, bind, Except.bind] at hy
              exact key_ok (Graph.attrs_ok h4) hy
          subst h; rw [hown, hnk', hns]; rfl

/-! ### characterisation of one partition step -/

theorem alookup_zip_map {α} (F : Nat → α) : ∀ (l : List Nat) (a : Nat), a ∈ l →
    alookup a (l.zip (l.map F)) = some (F a)
  | [], a, h => by simp at h
  | b :: l, a, h => by
    simp only [List.map_cons, List.zip_cons_cons, alookup]
    by_cases hb : b == a
    · have : b = a := by simpa using hb
      simp [hb, this]
    · have hne : b ≠ a := by simpa using hb
      have ha : a ∈ l := by
        rcases List.mem_cons.mp h with h | h
        · exact absurd h.symm hne
        · exact h
      simp [hb, alookup_zip_map F l a ha]

theorem labels_mapM_seq {g : Graph} {attr : AttrName} {seqs : List Seq}
    (h : g.labels.mapM (fun a => attributeSequence g a attr) = .ok seqs) :
    seqs = g.labels.map (seqOf g attr) :=
  mapM_ok_eq_map _ (seqOf g attr) g.labels seqs (fun _ _ _ hy => attributeSequence_ok hy) h

/-- the class a node receives: the rank of its sequence among all sequences of the graph -/
def classOf (g : Graph) (attr : AttrName) (a : Nat) : Nat :=
  rankIn (g.labels.map (seqOf g attr)) (seqOf g attr a)

/-- the attribute update of `partition_molecule_by_attribute` -/
def setPart (assoc : List (Nat × Nat)) (a : Nat) (atm : Atom) : Atom :=
  match alookup a assoc with
  | some p => { atm with part := some (p : Int) }
  | none => atm

theorem partition_form {g : Graph} {attr : AttrName} {h : Graph}
    (hp : partitionMoleculeByAttribute g attr = .ok h) :
    ∃ seqs, g.labels.mapM (fun a => attributeSequence g a attr) = .ok seqs ∧
      h = g.copy.mapAttrs (setPart (g.copy.labels.zip (ranksOf seqs))) := by
  unfold partitionMoleculeByAttribute at hp
  cases hseq : g.labels.mapM (fun a => attributeSequence g a attr) with
  | error e => simp [hseq, bind, Except.bind] at hp
  | ok seqs =>
    simp only [hseq, bind, Except.bind, pure, Except.pure] at hp
    injection hp with hp
    refine ⟨seqs, rfl, ?_⟩
    rw [← hp]
    rfl

/-- What `partition_molecule_by_attribute` returns: the same graph (nodes in the same order, every
attribute kept, neighbour lists possibly reordered by the copy) with `partition` set to the rank of the
node's attribute sequence. -/
theorem partition_spec (hc : CopySpec) (hm : MapAttrsSpec) (g : Graph) (attr : AttrName) (hw : g.WF)
    (hs : g.Simple) (h : Graph) (hp : partitionMoleculeByAttribute g attr = .ok h) :
    h.labels = g.labels ∧ h.WF ∧ h.Simple ∧
    (∀ a ∈ g.labels, h.attrs? a = (g.attrs? a).map fun x => { x with part := some (classOf g attr a : Int) }) ∧
    (∀ a ∈ g.labels, (h.nbrsD a).Perm (g.nbrsD a)) := by
  obtain ⟨seqs, hseq, rfl⟩ := partition_form hp
  have hseqs := labels_mapM_seq hseq
  obtain ⟨hrel, hcw, hcs, hcl⟩ := hc g hw hs
  obtain ⟨hml, hmn, hma, hmw, hms⟩ := hm g.copy (setPart (g.copy.labels.zip (ranksOf seqs)))
  refine ⟨by rw [hml, hcl], hmw hcw, hms hcs, ?_, ?_⟩
  · intro a ha
    rw [hma a]
    have h1 : g.copy.attrs? a = g.attrs? a := by simpa using hrel.attrs a ha
    rw [h1, hcl, ranksOf_eq, hseqs]
    have : alookup a (g.labels.zip ((g.labels.map (seqOf g attr)).map (rankIn (g.labels.map (seqOf g attr)))))
        = some (classOf g attr a) := by
      rw [List.map_map]
      exact alookup_zip_map (fun b => rankIn (g.labels.map (seqOf g attr)) (seqOf g attr b)) g.labels a ha
    unfold setPart
    simp only [this]
  · intro a ha
    rw [hmn a]
    have := hrel.nbrs a ha
    simpa using this

/-! ### equivariance -/

theorem Graph.nbrs_closed {g : Graph} (hw : g.WF) {a b : Nat} (hb : b ∈ g.nbrs a) : b ∈ g.labels := by
  unfold Graph.nbrs at hb
  cases hf : g.find? a with
  | none => simp [hf] at hb
  | some n =>
    simp only [hf, List.mem_map] at hb
    obtain ⟨e, he, rfl⟩ := hb
    exact hw.closed n (List.mem_of_find?_eq_some hf) e he

theorem Graph.nbrs_eq_nbrsD (g : Graph) (a : Nat) : g.nbrs a = (g.nbrsD a).map (·.1) := by
  unfold Graph.nbrs Graph.nbrsD
  cases g.find? a <;> simp

section Equivariance
variable {R : Atom → Atom → Prop} {f : Nat → Nat} {g g' : Graph} {attr : AttrName}

theorem keyD_iso (hR : ∀ x y, R x y → x.key attr = y.key attr) (iso : Iso R f g g') {b : Nat}
    (hb : b ∈ g.labels) : keyD g' attr (f b) = keyD g attr b := by
  obtain ⟨x, y, hx, hy, hxy⟩ := iso.attrs b hb
  simp [keyD, hx, hy, hR x y hxy]

theorem seqOf_iso (hR : ∀ x y, R x y → x.key attr = y.key attr) (iso : Iso R f g g') (hw : g.WF)
    {a : Nat} (ha : a ∈ g.labels) : seqOf g' attr (f a) = seqOf g attr a := by
  unfold seqOf
  rw [keyD_iso hR iso ha]
  congr 1
  apply sortKDesc_perm_eq
  refine ((iso.nbrs a ha).map _).trans ?_
  rw [List.map_map]
  have : (g.nbrs a).map (keyD g' attr ∘ f) = (g.nbrs a).map (keyD g attr) :=
    List.map_congr_left (fun b hb => keyD_iso hR iso (Graph.nbrs_closed hw hb))
  rw [this]

theorem seqs_iso (hR : ∀ x y, R x y → x.key attr = y.key attr) (iso : Iso R f g g') (hw : g.WF) :
    (g'.labels.map (seqOf g' attr)).Perm (g.labels.map (seqOf g attr)) := by
  refine (iso.labels.map _).trans ?_
  rw [List.map_map]
  have : g.labels.map (seqOf g' attr ∘ f) = g.labels.map (seqOf g attr) :=
    List.map_congr_left (fun a ha => seqOf_iso hR iso hw ha)
  rw [this]

/-- the class of an atom does not depend on numbering or listing order -/
theorem classOf_iso (hR : ∀ x y, R x y → x.key attr = y.key attr) (iso : Iso R f g g') (hw : g.WF)
    {a : Nat} (ha : a ∈ g.labels) : classOf g' attr (f a) = classOf g attr a := by
  unfold classOf
  rw [rankIn_perm (seqs_iso hR iso hw), seqOf_iso hR iso hw ha]

end Equivariance

theorem SameIdent.setPart {x y : Atom} (h : SameIdent x y) (p : Option Int) :
    SameIdentPart { x with part := p } { y with part := p } := by
  obtain ⟨h1, h2, h3, h4, h5⟩ := h
  exact ⟨⟨h1, h2, h3, h4, h5⟩, rfl⟩

/-- **S2.** One partition step commutes with every relabelling-in-any-listing that preserves identity
and the key: the two results are again related, now including the partition class. -/
theorem partition_equivariant (hc : CopySpec) (hm : MapAttrsSpec) {R : Atom → Atom → Prop} {f : Nat → Nat}
    {g g' h h' : Graph} {attr : AttrName}
    (hR : ∀ x y, R x y → SameIdent x y ∧ x.key attr = y.key attr) (iso : Iso R f g g')
    (hw : g.WF) (hs : g.Simple) (hw' : g'.WF) (hs' : g'.Simple)
    (hp : partitionMoleculeByAttribute g attr = .ok h) (hp' : partitionMoleculeByAttribute g' attr = .ok h') :
    Iso SameIdentPart f h h' := by
  obtain ⟨hl, _, _, ha, hn⟩ := partition_spec hc hm g attr hw hs h hp
  obtain ⟨hl', _, _, ha', hn'⟩ := partition_spec hc hm g' attr hw' hs' h' hp'
  have hmem : ∀ a ∈ g.labels, f a ∈ g'.labels := fun a ha =>
    iso.labels.mem_iff.mpr (List.mem_map.mpr ⟨a, ha, rfl⟩)
  refine ⟨by rw [hl, hl']; exact iso.labels, by rw [hl]; exact iso.inj, ?_, ?_⟩
  · intro a hah
    rw [hl] at hah
    obtain ⟨x, y, hx, hy, hxy⟩ := iso.attrs a hah
    refine ⟨_, _, by rw [ha a hah, hx]; rfl, by rw [ha' (f a) (hmem a hah), hy]; rfl, ?_⟩
    rw [classOf_iso (fun x y h => (hR x y h).2) iso hw hah]
    exact (hR x y hxy).1.setPart _
  · intro a hah
    rw [hl] at hah
    rw [Graph.nbrs_eq_nbrsD h', Graph.nbrs_eq_nbrsD h]
    have h1 := ((hn' (f a) (hmem a hah)).map (·.1))
    have h2 := ((hn a hah).map (·.1))
    rw [← Graph.nbrs_eq_nbrsD g'] at h1
    rw [← Graph.nbrs_eq_nbrsD g] at h2
    exact h1.trans ((iso.nbrs a hah).trans (h2.symm.map f))

end Tucan
