import TucanProofs.Lemmas.FilesExample
import TucanProofs.Lemmas.FilesPerm
import TucanProofs.Lemmas.FilesMol
import TucanProofs.Lemmas.RespellAst
/-!
# More concrete instances: the hypotheses of the file-level and string-level theorems are satisfiable

* the molecule of `FilesExample` is `Conformant`;
* the same molecule listed in reverse order is the `SameMolecule` (σ = τ = i ↦ 2 - i);
* a V3000 atom/bond block with the atom indices 7, 3, 12 (not consecutive, not ascending) states it (`V3StatesIdx`);
* the syntax tree of `C2H6O/(1-3)(2-3)/(3:mass=13)`-like strings: a valid tree, and two trees that say the same
  thing with tuples reordered, an endpoint pair swapped, a tuple repeated and the attribute block split.
-/
namespace Tucan
namespace MoreExamples
open FilesExample

theorem mol_conformant : mol.Conformant := by
  refine ⟨mol_ok, ?_, ?_⟩
  · intro a ha
    simp only [mol, List.mem_cons, List.not_mem_nil, or_false] at ha
    rcases ha with rfl | rfl | rfl <;> exact ⟨by decide, by decide +kernel⟩
  · intro a ha
    simp only [mol, List.mem_cons, List.not_mem_nil, or_false] at ha
    rcases ha with rfl | rfl | rfl <;> exact ⟨by decide, by decide +kernel⟩

/-- the molecule of `FilesExample` listed in reverse: D, O(-), 13C; bonds renumbered and reoriented -/
def molRev : Mol :=
  { atoms := [{ sym := ['D'], chg := 0, rad := 0, mass := 0 },
              { sym := ['O'], chg := -1, rad := 0, mass := 0 },
              { sym := ['C'], chg := 0, rad := 0, mass := 13 }],
    bonds := [{ a := 0, b := 1, t := 1 }, { a := 2, b := 1, t := 2 }] }

def rev (i : Nat) : Nat := 2 - i

theorem molRev_ok : molRev.Ok := by
  refine ⟨?_, ?_, ?_, ?_⟩
  · intro a ha
    simp only [molRev, List.mem_cons, List.not_mem_nil, or_false] at ha
    rcases ha with rfl | rfl | rfl
    · right; left; rfl
    · left; decide +kernel
    · left; decide +kernel
  · intro a ha
    simp only [molRev, List.mem_cons, List.not_mem_nil, or_false] at ha
    rcases ha with rfl | rfl | rfl
    · intro _; rfl
    · intro _; rfl
    · intro h; exact absurd (by decide) h
  · intro b hb
    simp only [molRev, List.mem_cons, List.not_mem_nil, or_false] at hb
    rcases hb with rfl | rfl <;> decide
  · decide

theorem sameMolecule_rev : SameMolecule rev rev mol molRev := by
  refine ⟨rfl, ?_, ?_, ?_⟩
  · intro i hi
    have hi' : i < 3 := hi
    show 2 - i < 3 ∧ 2 - i < 3 ∧ 2 - (2 - i) = i ∧ 2 - (2 - i) = i
    omega
  · intro i hi hi'
    have h3 : i < 3 := hi
    match i, h3 with
    | 0, _ => rfl
    | 1, _ => rfl
    | 2, _ => rfl
  · intro i j hi hj
    have hi' : i < 3 := hi
    have hj' : j < 3 := hj
    simp only [mol, molRev, rev, List.mem_cons, List.not_mem_nil, or_false, exists_eq_or_imp, exists_eq_left]
    omega

/-- atom lines with the indices 7, 3, 12 -/
def atomsIdx : List AtomEntry :=
  [.real (cs "7") 7 ['C'] (cs "0") (cs "0") (cs "0") (cs "0") [.mass 13],
   .real (cs "3") 3 ['O'] (cs "1.5") (cs "0") (cs "0") (cs "0") [.chg (-1)],
   .real (cs "12") 12 ['D'] (cs "2.5") (cs "0") (cs "0") (cs "0") []]

def bondsIdx : List BondEntry :=
  [{ idxTok := cs "1", btype := 1, a1 := 7, a2 := 3, pre := [], ends := none, post := [] },
   { idxTok := cs "2", btype := 1, a1 := 3, a2 := 12, pre := [], ends := none, post := [] }]

theorem v3StatesIdx : V3StatesIdx mol [7, 3, 12] coords3 atomsIdx bondsIdx := by
  refine ⟨rfl, by decide, ⟨rfl, rfl⟩, rfl, ?_, ?_⟩
  · intro i h h0 h1 h2
    have h' : i < 3 := h
    match i, h' with
    | 0, _ => exact ⟨cs "7", cs "0", [.mass 13], rfl, rfl, rfl, fun _ => rfl⟩
    | 1, _ => exact ⟨cs "3", cs "0", [.chg (-1)], rfl, rfl, rfl, fun _ => rfl⟩
    | 2, _ => exact ⟨cs "12", cs "0", [], rfl, rfl, rfl, fun h0 => absurd h0 (show ¬ ((2 : Int) = 0) by decide)⟩
  · intro j h h2 ha hb
    have h' : j < 2 := h
    match j, h' with
    | 0, _ => exact ⟨rfl, rfl, rfl⟩
    | 1, _ => exact ⟨rfl, rfl, rfl⟩

/-- the tree of `CH2O/(1-3)(2-3)(3-4)/(3:mass=13,rad=2)` -/
def astA : Ast :=
  { formula := [(['C'], none), (['H'], some (cs "2")), (['O'], none)],
    tuples := [(cs "1", cs "3"), (cs "2", cs "3"), (cs "3", cs "4")],
    attrs := [(cs "3", [(cs "mass", cs "13"), (cs "rad", cs "2")])] }

/-- the same molecule respelled: tuples reordered, one written the other way round, one repeated, the attribute
block split and reordered -/
def astB : Ast :=
  { formula := [(['C'], none), (['H'], some (cs "2")), (['O'], none)],
    tuples := [(cs "4", cs "3"), (cs "1", cs "3"), (cs "2", cs "3"), (cs "3", cs "1")],
    attrs := [(cs "3", [(cs "rad", cs "2")]), (cs "3", [(cs "mass", cs "13")])] }

theorem lv1 : litVal (cs "1") = 1 := by decide +kernel
theorem lv2 : litVal (cs "2") = 2 := by decide +kernel
theorem lv3 : litVal (cs "3") = 3 := by decide +kernel
theorem lv4 : litVal (cs "4") = 4 := by decide +kernel

theorem astA_valid : astA.Valid := by
  refine ⟨?_, ?_, ?_, ?_⟩
  · intro t ht
    have : t.length ≤ 2 := by
      revert t
      decide +kernel
    exact Nat.le_trans this (by decide)
  · decide +kernel
  · decide +kernel
  · decide +kernel

theorem astB_valid : astB.Valid := by
  refine ⟨?_, ?_, ?_, ?_⟩
  · intro t ht
    have : t.length ≤ 2 := by
      revert t
      decide +kernel
    exact Nat.le_trans this (by decide)
  · decide +kernel
  · decide +kernel
  · decide +kernel

theorem sameMeaning_AB : SameMeaning astA astB := by
  refine ⟨rfl, ?_, ?_⟩
  · intro i j
    simp only [astA, astB, List.mem_cons, List.not_mem_nil, or_false, exists_eq_or_imp, exists_eq_left,
      lv1, lv2, lv3, lv4]
    omega
  · have e : astB.valuedSettings = astA.valuedSettings.reverse := by decide +kernel
    intro x
    rw [e, List.mem_reverse]

end MoreExamples
end Tucan
