import TucanModel.Py
set_option linter.unusedSectionVars false
/-!
# S1 — sorting is a function of the multiset

For every order the modelled code sorts by, `sorted` applied to two permutations of the same
elements returns the same list.  This is what "all set/dict-derived sequences are sorted before use"
means formally: the result cannot depend on iteration order.
-/
namespace Tucan

theorem sort_perm_eq {α} (le : α → α → Bool)
    (trans : ∀ a b c, le a b → le b c → le a c) (total : ∀ a b, (le a b || le b a) = true)
    (antisymm : ∀ a b, le a b → le b a → a = b) {l₁ l₂ : List α} (h : l₁.Perm l₂) :
    l₁.mergeSort le = l₂.mergeSort le := by
  apply List.Perm.eq_of_pairwise (le := fun a b => le a b)
  · intro a b _ _; exact antisymm a b
  · exact List.pairwise_mergeSort (fun a b c => trans a b c) total l₁
  · exact List.pairwise_mergeSort (fun a b c => trans a b c) total l₂
  · exact (List.mergeSort_perm l₁ le).trans (h.trans (List.mergeSort_perm l₂ le).symm)

/-! ### naturals -/
theorem leN_trans (a b c : Nat) : leN a b → leN b c → leN a c := by
  simp only [leN, decide_eq_true_eq]; omega
theorem leN_total (a b : Nat) : (leN a b || leN b a) = true := by
  simp only [leN, Bool.or_eq_true, decide_eq_true_eq]; omega
theorem leN_antisymm (a b : Nat) : leN a b → leN b a → a = b := by
  simp only [leN, decide_eq_true_eq]; omega
theorem sortN_perm_eq {l₁ l₂ : List Nat} (h : l₁.Perm l₂) : sortN l₁ = sortN l₂ :=
  sort_perm_eq leN leN_trans leN_total leN_antisymm h

theorem leI_trans (a b c : Int) : leI a b → leI b c → leI a c := by
  simp only [leI, decide_eq_true_eq]; omega
theorem leI_total (a b : Int) : (leI a b || leI b a) = true := by
  simp only [leI, Bool.or_eq_true, decide_eq_true_eq]; omega
theorem leI_antisymm (a b : Int) : leI a b → leI b a → a = b := by
  simp only [leI, decide_eq_true_eq]; omega

/-! ### keys (tuples of ints) -/
theorem leK_trans (a b c : Key) : leK a b → leK b c → leK a c := by
  simp only [leK, decide_eq_true_eq]; exact List.le_trans
theorem leK_total (a b : Key) : (leK a b || leK b a) = true := by
  simp only [leK, Bool.or_eq_true, decide_eq_true_eq]; exact List.le_total a b
theorem leK_antisymm (a b : Key) : leK a b → leK b a → a = b := by
  simp only [leK, decide_eq_true_eq]; exact List.le_antisymm
theorem geK_trans (a b c : Key) : geK a b → geK b c → geK a c := by
  simp only [geK, decide_eq_true_eq]; exact fun h1 h2 => List.le_trans h2 h1
theorem geK_total (a b : Key) : (geK a b || geK b a) = true := by
  simp only [geK, Bool.or_eq_true, decide_eq_true_eq]; exact List.le_total b a
theorem geK_antisymm (a b : Key) : geK a b → geK b a → a = b := by
  simp only [geK, decide_eq_true_eq]; exact fun h1 h2 => List.le_antisymm h2 h1
theorem sortK_perm_eq {l₁ l₂ : List Key} (h : l₁.Perm l₂) : sortK l₁ = sortK l₂ :=
  sort_perm_eq leK leK_trans leK_total leK_antisymm h
theorem sortKDesc_perm_eq {l₁ l₂ : List Key} (h : l₁.Perm l₂) : sortKDesc l₁ = sortKDesc l₂ :=
  sort_perm_eq geK geK_trans geK_total geK_antisymm h

/-! ### sequences (tuples of keys) -/
instance : Std.Irrefl (fun (a b : Key) => a < b) := ⟨List.lt_irrefl⟩
instance : Std.Asymm (fun (a b : Key) => a < b) := ⟨fun _ _ => List.lt_asymm⟩
instance : Std.Trichotomous (fun (a b : Key) => a < b) := inferInstance
instance : Trans (fun (a b : Key) => a < b) (fun a b => a < b) (fun a b => a < b) := ⟨List.lt_trans⟩

theorem leS_trans (a b c : Seq) : leS a b → leS b c → leS a c := by
  simp only [leS, decide_eq_true_eq]; exact List.le_trans
theorem leS_total (a b : Seq) : (leS a b || leS b a) = true := by
  simp only [leS, Bool.or_eq_true, decide_eq_true_eq]; exact List.le_total a b
theorem leS_antisymm (a b : Seq) : leS a b → leS b a → a = b := by
  simp only [leS, decide_eq_true_eq]; exact List.le_antisymm
theorem sortS_perm_eq {l₁ l₂ : List Seq} (h : l₁.Perm l₂) : sortS l₁ = sortS l₂ :=
  sort_perm_eq leS leS_trans leS_total leS_antisymm h

end Tucan

namespace Tucan
/-! ### pairs: tuple order on `(first, second)` with a strict linear order on the first component -/
section Pair
variable {α : Type} [LT α] [DecidableEq α] [DecidableLT α]
  [Std.Irrefl (fun (a b : α) => a < b)] [Std.Asymm (fun (a b : α) => a < b)]
  [Std.Trichotomous (fun (a b : α) => a < b)] [Trans (fun (a b : α) => a < b) (fun a b => a < b) (fun a b => a < b)]

def lePair (a b : α × Nat) : Bool := decide (a.1 < b.1) || (a.1 == b.1 && decide (a.2 ≤ b.2))

omit [Std.Irrefl (fun (a b : α) => a < b)] [Std.Asymm (fun (a b : α) => a < b)]
  [Std.Trichotomous (fun (a b : α) => a < b)] [Trans (fun (a b : α) => a < b) (fun a b => a < b) (fun a b => a < b)] in
theorem lePair_iff (a b : α × Nat) : lePair a b = true ↔ a.1 < b.1 ∨ (a.1 = b.1 ∧ a.2 ≤ b.2) := by
  simp [lePair]

theorem lePair_trans (a b c : α × Nat) : lePair a b → lePair b c → lePair a c := by
  rw [lePair_iff, lePair_iff, lePair_iff]
  rintro (h1 | ⟨h1, h1'⟩) (h2 | ⟨h2, h2'⟩)
  · exact Or.inl (Std.lt_trans h1 h2)
  · exact Or.inl (h2 ▸ h1)
  · exact Or.inl (h1 ▸ h2)
  · exact Or.inr ⟨h1.trans h2, Nat.le_trans h1' h2'⟩

theorem lePair_total (a b : α × Nat) : (lePair a b || lePair b a) = true := by
  rw [Bool.or_eq_true, lePair_iff, lePair_iff]
  rcases Std.lt_trichotomy a.1 b.1 with h | h | h
  · exact Or.inl (Or.inl h)
  · rcases Nat.le_total a.2 b.2 with h' | h'
    · exact Or.inl (Or.inr ⟨h, h'⟩)
    · exact Or.inr (Or.inr ⟨h.symm, h'⟩)
  · exact Or.inr (Or.inl h)

theorem lePair_antisymm (a b : α × Nat) : lePair a b → lePair b a → a = b := by
  rw [lePair_iff, lePair_iff]
  rintro (h1 | ⟨h1, h1'⟩) (h2 | ⟨h2, h2'⟩)
  · exact absurd h2 (Std.not_gt_of_lt h1)
  · rw [h2] at h1; exact absurd h1 Std.lt_irrefl
  · rw [h1] at h2; exact absurd h2 Std.lt_irrefl
  · exact Prod.ext h1 (Nat.le_antisymm h1' h2')
end Pair

instance : Std.Irrefl (fun (a b : Seq) => a < b) := ⟨List.lt_irrefl⟩
instance : Std.Asymm (fun (a b : Seq) => a < b) := ⟨fun _ _ => List.lt_asymm⟩
instance : Std.Trichotomous (fun (a b : Seq) => a < b) := inferInstance
instance : Trans (fun (a b : Seq) => a < b) (fun a b => a < b) (fun a b => a < b) := ⟨List.lt_trans⟩

theorem leSN_eq : leSN = lePair := by
  funext a b; rw [Bool.eq_iff_iff, lePair_iff]; simp [leSN]
theorem leNN_eq : leNN = lePair := by
  funext a b; rw [Bool.eq_iff_iff, lePair_iff]; simp [leNN]

/-- `sorted([(sequence, label), …])` is a function of the multiset -/
theorem sortSN_perm_eq {l₁ l₂ : List (Seq × Nat)} (h : l₁.Perm l₂) : l₁.mergeSort leSN = l₂.mergeSort leSN := by
  rw [leSN_eq]; exact sort_perm_eq lePair lePair_trans lePair_total lePair_antisymm h

/-- `sorted([sorted(edge), …])` is a function of the multiset -/
theorem sortNN_perm_eq {l₁ l₂ : List (Nat × Nat)} (h : l₁.Perm l₂) : l₁.mergeSort leNN = l₂.mergeSort leNN := by
  rw [leNN_eq]; exact sort_perm_eq lePair lePair_trans lePair_total lePair_antisymm h

end Tucan
