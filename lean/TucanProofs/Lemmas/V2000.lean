import TucanProofs.Lemmas.LineMachinery
/-!
# The V2000 reader: fixed columns, property lines, supersession
-/
namespace Tucan

/-- `"%3d" % i` (for values whose text has at most three characters) -/
def pad3 (i : Int) : Str := List.replicate (3 - (intRepr i).length) ' ' ++ intRepr i

namespace V2000
open LineM

theorem dropWhile_replicate_append (p : Char → Bool) (hp : p ' ' = true) (k : Nat) (t : Str) :
    (List.replicate k ' ' ++ t).dropWhile p = t.dropWhile p := by
  induction k with
  | zero => simp
  | succ k ih => simp only [List.replicate_succ, List.cons_append, List.dropWhile, hp, ih]

theorem stripSp_replicate (k : Nat) : stripSp (List.replicate k ' ') = [] := by
  have := dropWhile_replicate_append (· == ' ') (by decide) k []
  simp only [List.append_nil, List.dropWhile_nil] at this
  simp only [stripSp, this]
  rfl

theorem strip_replicate_append (k : Nat) (t : Str) : strip (List.replicate k ' ' ++ t) = strip t := by
  unfold strip
  rw [dropWhile_replicate_append isPySpace (by decide)]

theorem pyInt_replicate_append (k : Nat) (t : Str) : pyInt (List.replicate k ' ' ++ t) = pyInt t := by
  unfold pyInt
  rw [numText_replicate_append]

theorem intRepr_ne_nil (i : Int) : intRepr i ≠ [] := by
  cases i with
  | ofNat n => exact (natRepr_shape' n).1
  | negSucc n => simp [intRepr]

theorem intRepr_no_blank (i : Int) : ∀ c ∈ intRepr i, (c == ' ') = false := by
  intro c hc
  have := intRepr_no_space i c hc
  cases h : c == ' ' with
  | false => rfl
  | true =>
    rw [beq_iff_eq] at h
    subst h
    revert this; decide

theorem stripSp_pad (k : Nat) (i : Int) : stripSp (List.replicate k ' ' ++ intRepr i) = intRepr i := by
  unfold stripSp
  rw [dropWhile_replicate_append (· == ' ') (by decide), dropWhile_of_all _ (intRepr_no_blank i),
    dropWhileEnd_of_all _ (intRepr_no_blank i)]

theorem pad3_length (i : Int) (h : (intRepr i).length ≤ 3) : (pad3 i).length = 3 := by
  simp only [pad3, List.length_append, List.length_replicate]
  omega

end V2000
open V2000 LineM

/-- fixed-width integer fields read back -/
theorem toIntV2000_pad3 (i : Int) (h : (intRepr i).length ≤ 3) : toIntV2000 (pad3 i) = .ok i := by
  unfold toIntV2000 pad3
  rw [stripSp_pad, pyInt_replicate_append, pyInt_intRepr i (by simp only [intMaxStrDigits]; omega)]
  have := intRepr_ne_nil i
  cases hi : intRepr i with
  | nil => exact absurd hi this
  | cons c r => rfl

/-- a blank field is 0 -/
theorem toIntV2000_blank (k : Nat) : toIntV2000 (List.replicate k ' ') = .ok 0 := by
  simp only [toIntV2000, stripSp_replicate]
  rfl

/-- `M  XXXnn8 aaa vvv aaa vvv …` -/
def propLine (tag : Str) (entries : List (Int × Int)) : Str :=
  cs "M  " ++ tag ++ pad3 entries.length ++ (entries.map fun e => ' ' :: pad3 e.1 ++ ' ' :: pad3 e.2).flatten

namespace V2000
open LineM

theorem slice_mid (L pre mid post : Str) (a b : Nat) (hL : L = pre ++ (mid ++ post)) (ha : pre.length = a)
    (hb : a + mid.length = b) : slice L a b = mid := by
  subst hL ha hb
  unfold slice
  rw [List.drop_left, Nat.add_sub_cancel_left, List.take_left]

/-- one `(atom, value)` entry of a property line: eight columns -/
def enc (e : Int × Int) : Str := ' ' :: pad3 e.1 ++ ' ' :: pad3 e.2

def Fit (e : Int × Int) : Prop := (intRepr e.1).length ≤ 3 ∧ (intRepr e.2).length ≤ 3

theorem enc_length (e : Int × Int) (h : Fit e) : (enc e).length = 8 := by
  simp only [enc, List.length_cons, List.length_append, pad3_length _ h.1, pad3_length _ h.2]

theorem encs_length (es : List (Int × Int)) (h : ∀ e ∈ es, Fit e) : (es.map enc).flatten.length = 8 * es.length := by
  induction es with
  | nil => rfl
  | cons e es ih =>
    have := ih (fun x hx => h x (by simp [hx]))
    simp only [List.map_cons, List.flatten_cons, List.length_append, enc_length e (h e (by simp)), this,
      List.length_cons]
    omega

/-- the body of the entry loop -/
def avStep (line : Str) (atoms : List (Int × Atom)) (acc : List (Int × Int)) (i : Nat) : PyM (List (Int × Int)) := do
  let st := 10 + i * 8
  let idx ← toIntV2000 (slice line st (st + 3))
  let value ← toIntV2000 (slice line (st + 4) (st + 7))
  if (alookup (idx - 1) atoms).isNone then molErr
  pure (acc ++ [(idx - 1, value)])

theorem parseAtomValueAssignments_eq (line : Str) (atoms : List (Int × Atom)) :
    parseAtomValueAssignments line atoms =
      toIntV2000 (slice line 6 9) >>= fun n => (List.range n.toNat).foldlM (avStep line atoms) [] := rfl

theorem avStep_entry (H : Str) (hH : H.length = 9) (done todo : List (Int × Int)) (e : Int × Int)
    (hdone : ∀ x ∈ done, Fit x) (he : Fit e) (atoms : List (Int × Atom))
    (hex : (alookup (e.1 - 1) atoms).isSome) (acc : List (Int × Int)) :
    avStep (H ++ ((done ++ e :: todo).map enc).flatten) atoms acc done.length = .ok (acc ++ [(e.1 - 1, e.2)]) := by
  have hP : (H ++ (done.map enc).flatten).length = 9 + 8 * done.length := by
    rw [List.length_append, hH, encs_length done hdone]
  have h1 : slice (H ++ ((done ++ e :: todo).map enc).flatten) (10 + done.length * 8) (10 + done.length * 8 + 3)
      = pad3 e.1 :=
    slice_mid _ ((H ++ (done.map enc).flatten) ++ [' ']) (pad3 e.1) (' ' :: pad3 e.2 ++ (todo.map enc).flatten) _ _
      (by simp [enc]) (by rw [List.length_append, hP]; simp; omega) (by rw [pad3_length _ he.1])
  have h2 : slice (H ++ ((done ++ e :: todo).map enc).flatten) (10 + done.length * 8 + 4) (10 + done.length * 8 + 7)
      = pad3 e.2 :=
    slice_mid _ ((H ++ (done.map enc).flatten) ++ (' ' :: pad3 e.1 ++ [' '])) (pad3 e.2) ((todo.map enc).flatten) _ _
      (by simp [enc]) (by rw [List.length_append, hP]; simp [pad3_length _ he.1]; omega)
      (by rw [pad3_length _ he.2])
  have h3 : (alookup (e.1 - 1) atoms).isNone = false := by
    cases h : alookup (e.1 - 1) atoms with
    | none => rw [h] at hex; cases hex
    | some a => rfl
  unfold avStep
  simp only [h1, h2, toIntV2000_pad3 _ he.1, toIntV2000_pad3 _ he.2, ok_bind, h3, Bool.false_eq_true, if_false]
  rfl

theorem avLoop (H : Str) (hH : H.length = 9) (atoms : List (Int × Atom)) :
    ∀ (todo done : List (Int × Int)) (acc : List (Int × Int)), (∀ x ∈ done, Fit x) → (∀ x ∈ todo, Fit x) →
      (∀ e ∈ todo, (alookup (e.1 - 1) atoms).isSome) →
      (List.range' done.length todo.length).foldlM (avStep (H ++ ((done ++ todo).map enc).flatten) atoms) acc
        = .ok (acc ++ todo.map fun e => (e.1 - 1, e.2)) := by
  intro todo
  induction todo with
  | nil => intro done acc _ _ _; simp [pure, Except.pure]
  | cons e todo ih =>
    intro done acc hd ht hex
    have := ih (done ++ [e]) (acc ++ [(e.1 - 1, e.2)])
      (by intro x hx; rcases List.mem_append.1 hx with h | h
          · exact hd x h
          · rw [List.mem_singleton.1 h]; exact ht e (by simp))
      (fun x hx => ht x (by simp [hx])) (fun x hx => hex x (by simp [hx]))
    simp only [List.length_append, List.length_singleton, List.append_assoc, List.singleton_append] at this
    simp only [List.length_cons, List.range'_succ, List.foldlM_cons,
      avStep_entry H hH done todo e hd (ht e (by simp)) atoms (hex e (by simp)) acc, ok_bind, this,
      List.map_cons]

end V2000

/-- **Property lines are decoded entry by entry, for any number of entries per line** (the format allows
up to eight): every `(atom, value)` pair comes back, atom indices 0-based, in order. -/
theorem parseAtomValueAssignments_propLine (tag : Str) (htag : tag.length = 3) (entries : List (Int × Int))
    (hn : (intRepr (entries.length : Int)).length ≤ 3)
    (hfit : ∀ e ∈ entries, (intRepr e.1).length ≤ 3 ∧ (intRepr e.2).length ≤ 3)
    (atoms : List (Int × Atom)) (hex : ∀ e ∈ entries, (alookup (e.1 - 1) atoms).isSome) :
    parseAtomValueAssignments (propLine tag entries) atoms = .ok (entries.map fun e => (e.1 - 1, e.2)) := by
  have hH : (cs "M  " ++ tag ++ pad3 entries.length).length = 9 := by
    simp only [List.length_append, htag, pad3_length _ hn, cs]
    rfl
  have hline : propLine tag entries = (cs "M  " ++ tag ++ pad3 entries.length) ++ (([] ++ entries).map enc).flatten := rfl
  have hn' : slice (propLine tag entries) 6 9 = pad3 entries.length :=
    slice_mid _ (cs "M  " ++ tag) (pad3 entries.length) ((entries.map enc).flatten) 6 9
      (by rw [hline]; simp) (by simp only [List.length_append, htag, cs]; rfl) (by rw [pad3_length _ hn])
  rw [parseAtomValueAssignments_eq, hn', toIntV2000_pad3 _ hn, ok_bind, Int.toNat_natCast, List.range_eq_range', hline]
  have := avLoop _ hH atoms entries [] [] (by simp) hfit hex
  simpa using this

/-- the last value a list of property lines assigns to atom `k` under `key` (later entries override) -/
def lastAssigned (assignments : List (PropKey × Int × Int)) (key : PropKey) (k : Int) : Option Int :=
  ((assignments.filter fun a => a.1 == key && a.2.1 == k).getLast?).map (·.2.2)

/-- one parsed property-block line: either assignments under a key, an unrelated line, or the end marker -/
inductive BlockLine
  | assign (key : PropKey) (entries : List (Int × Int))   -- 0-based atom index, value
  | other
  deriving Repr

/-- the text of a block line; `other` lines are any lines that are not `M  CHG…`, `M  RAD…`, `M  ISO…`,
`M  END` -/
def BlockLine.Renders (atoms : List (Int × Atom)) : BlockLine → Str → Prop
  | .assign key entries, line =>
      (match key with
        | .chg => startsWith line (cs "M  CHG") = true
        | .rad => startsWith line (cs "M  RAD") = true ∧ startsWith line (cs "M  CHG") = false
        | .mass => startsWith line (cs "M  ISO") = true ∧ startsWith line (cs "M  CHG") = false ∧
                   startsWith line (cs "M  RAD") = false) ∧
      parseAtomValueAssignments line atoms = .ok entries
  | .other, line =>
      startsWith line (cs "M  CHG") = false ∧ startsWith line (cs "M  RAD") = false ∧
      startsWith line (cs "M  ISO") = false ∧ line ≠ cs "M  END"

/-- the lines of the property block render the block lines, one to one -/
inductive RendersAll (atoms : List (Int × Atom)) : List BlockLine → List Str → Prop
  | nil : RendersAll atoms [] []
  | cons {b l bs ls} : BlockLine.Renders atoms b l → RendersAll atoms bs ls → RendersAll atoms (b :: bs) (l :: ls)

def allAssignments (bl : List BlockLine) : List (PropKey × Int × Int) :=
  bl.flatMap fun
    | .assign key entries => entries.map fun e => (key, e.1, e.2)
    | .other => []

def hasChgOrRad (bl : List BlockLine) : Bool :=
  bl.any fun
    | .assign .chg _ => true
    | .assign .rad _ => true
    | _ => false

namespace V2000

theorem alookup_ainsert {ν} (i k : Int) (v : ν) : ∀ (l : List (Int × ν)),
    alookup k (ainsert i v l) = if i == k then some v else alookup k l := by
  intro l
  induction l with
  | nil => simp [ainsert, alookup]
  | cons p r ih =>
    obtain ⟨k', v'⟩ := p
    by_cases h1 : k' = i
    · subst h1
      by_cases h2 : k' = k <;> simp [ainsert, alookup, h2]
    · by_cases h2 : i = k
      · subst h2
        simp [ainsert, alookup, h1, ih]
      · simp [ainsert, alookup, h1, h2, ih]

def Extra.get (e : Extra) : PropKey → Option Int
  | .chg => e.chg
  | .rad => e.rad
  | .mass => e.mass

/-- the stored field for atom `k` under `key`, none if there is no record -/
def fieldOf (ex : List (Int × Extra)) (key : PropKey) (k : Int) : Option Int :=
  (alookup k ex).bind (Extra.get · key)

/-- one dictionary update of `_merge_tuples_into_additional_attributes` -/
def merge1 (ex : List (Int × Extra)) (a : PropKey × Int × Int) : List (Int × Extra) :=
  ainsert a.2.1 (((alookup a.2.1 ex).getD {}).set a.1 a.2.2) ex

def mergeAll (asg : List (PropKey × Int × Int)) (ex : List (Int × Extra)) : List (Int × Extra) :=
  asg.foldl merge1 ex

theorem mergeTuples_eq (t : List (Int × Int)) (key : PropKey) (ex : List (Int × Extra)) :
    mergeTuples t key ex = mergeAll (t.map fun e => (key, e.1, e.2)) ex := by
  simp only [mergeTuples, mergeAll, List.foldl_map]
  rfl

theorem mergeAll_append (a b : List (PropKey × Int × Int)) (ex : List (Int × Extra)) :
    mergeAll (a ++ b) ex = mergeAll b (mergeAll a ex) := by
  simp only [mergeAll, List.foldl_append]

theorem fieldOf_merge1 (ex : List (Int × Extra)) (a : PropKey × Int × Int) (key : PropKey) (k : Int) :
    fieldOf (merge1 ex a) key k = if (a.1 == key && a.2.1 == k) = true then some a.2.2 else fieldOf ex key k := by
  obtain ⟨key', i, v⟩ := a
  simp only [fieldOf, merge1, alookup_ainsert]
  by_cases h : i = k
  · subst h
    simp only [beq_self_eq_true, if_true, Option.bind_some, Bool.and_true]
    cases alookup i ex <;> cases key' <;> cases key <;> simp [Extra.set, Extra.get] <;> rfl
  · have : (i == k) = false := by simpa using h
    simp only [this, Bool.false_eq_true, if_false, Bool.and_false]

theorem lastAssigned_concat (asg : List (PropKey × Int × Int)) (a : PropKey × Int × Int) (key : PropKey) (k : Int) :
    lastAssigned (asg ++ [a]) key k =
      if (a.1 == key && a.2.1 == k) = true then some a.2.2 else lastAssigned asg key k := by
  unfold lastAssigned
  rw [List.filter_append, List.getLast?_append]
  by_cases h : (a.1 == key && a.2.1 == k) = true
  · simp [h]
  · simp [h]

/-- the dictionary records, for every atom and key, the last value assigned so far -/
def Inv (ex : List (Int × Extra)) (asg : List (PropKey × Int × Int)) : Prop :=
  ∀ key k, fieldOf ex key k = lastAssigned asg key k

theorem inv_nil : Inv [] [] := fun _ _ => rfl

theorem inv_mergeAll : ∀ (b a : List (PropKey × Int × Int)) (ex : List (Int × Extra)), Inv ex a →
    Inv (mergeAll b ex) (a ++ b) := by
  intro b
  induction b with
  | nil => intro a ex h; simpa [mergeAll] using h
  | cons x b ih =>
    intro a ex h
    have hx : Inv (merge1 ex x) (a ++ [x]) := by
      intro key k
      rw [fieldOf_merge1, lastAssigned_concat, h key k]
    have := ih (a ++ [x]) (merge1 ex x) hx
    simpa [mergeAll] using this

theorem startsWith_END :
    startsWith (cs "M  END") (cs "M  CHG") = false ∧ startsWith (cs "M  END") (cs "M  RAD") = false ∧
    startsWith (cs "M  END") (cs "M  ISO") = false := by decide

theorem scan_spec (atoms : List (Int × Atom)) (tail : List Str) (bl : List BlockLine) (lines : List Str)
    (h : RendersAll atoms bl lines) : ∀ (ex : List (Int × Extra)) (flag : Bool),
    parseAttributeBlock.scan atoms (lines ++ cs "M  END" :: tail) ex flag =
      .ok (mergeAll (allAssignments bl) ex, flag || hasChgOrRad bl) := by
  induction h with
  | nil =>
    intro ex flag
    rw [List.nil_append, parseAttributeBlock.scan.eq_2]
    simp only [startsWith_END.1, startsWith_END.2.1, startsWith_END.2.2, Bool.false_eq_true, if_false,
      beq_self_eq_true, if_true]
    simp [mergeAll, allAssignments, hasChgOrRad, pure, Except.pure]
  | @cons b l bs ls hr _ ih =>
    intro ex flag
    rw [List.cons_append, parseAttributeBlock.scan.eq_2]
    cases b with
    | other =>
      obtain ⟨h1, h2, h3, h4⟩ := hr
      have h4' : (l == cs "M  END") = false := by simpa using h4
      simp only [h1, h2, h3, h4', Bool.false_eq_true, if_false, ih]
      simp [allAssignments, hasChgOrRad]
    | assign key entries =>
      obtain ⟨hk, hp⟩ := hr
      cases key with
      | chg =>
        simp only [hk, if_true, hp, ok_bind, ih, mergeTuples_eq]
        simp [allAssignments, hasChgOrRad, mergeAll_append]
      | rad =>
        simp only [hk.1, hk.2, Bool.false_eq_true, if_false, if_true, hp, ok_bind, ih, mergeTuples_eq]
        simp [allAssignments, hasChgOrRad, mergeAll_append]
      | mass =>
        simp only [hk.1, hk.2.1, hk.2.2, Bool.false_eq_true, if_false, if_true, hp, ok_bind, ih, mergeTuples_eq]
        simp [allAssignments, hasChgOrRad, mergeAll_append]

end V2000

/-- **The property block.**  Given the atoms of the atom block and a property block consisting of any
mixture of `M  CHG` / `M  RAD` / `M  ISO` lines and unrelated lines followed by `M  END` (and anything
after it), the reader returns, for every atom `k`:
* charge / radical: if any `M  CHG` or `M  RAD` line is present, ALL atom-block charge codes are
  superseded: the value is the last non-zero value assigned to `k` by such a line, else none; if no such
  line is present, the atom-block value stays;
* mass: the last non-zero value an `M  ISO` line assigns to `k`, else the atom-block value (the mass of a
  D or T symbol) — an `M  ISO` line for *another* atom does not touch it. -/
theorem parseAttributeBlock_spec (atoms : List (Int × Atom)) (bl : List BlockLine) (lines : List Str) (tail : List Str)
    (hlines : RendersAll atoms bl lines) :
    parseAttributeBlock (lines ++ cs "M  END" :: tail) atoms = .ok (atoms.map fun (k, a) =>
      let asg := allAssignments bl
      let base := if hasChgOrRad bl then { a with chg := none, rad := none } else a
      (k, { base with
        chg := nonZero (lastAssigned asg .chg k) <|> base.chg,
        rad := nonZero (lastAssigned asg .rad k) <|> base.rad,
        mass := nonZero (lastAssigned asg .mass k) <|> base.mass })) := by
  have hinv : Inv (mergeAll (allAssignments bl) []) (allAssignments bl) := by
    simpa using inv_mergeAll (allAssignments bl) [] [] inv_nil
  have hfield : ∀ (k : Int) (a : Atom),
      (match alookup k (mergeAll (allAssignments bl) []) with
        | none => (k, a)
        | some e => (k, { a with chg := nonZero e.chg <|> a.chg, rad := nonZero e.rad <|> a.rad,
                                 mass := nonZero e.mass <|> a.mass })) =
      (k, { a with
        chg := nonZero (lastAssigned (allAssignments bl) .chg k) <|> a.chg,
        rad := nonZero (lastAssigned (allAssignments bl) .rad k) <|> a.rad,
        mass := nonZero (lastAssigned (allAssignments bl) .mass k) <|> a.mass }) := by
    intro k a
    have h1 := hinv .chg k
    have h2 := hinv .rad k
    have h3 := hinv .mass k
    simp only [fieldOf] at h1 h2 h3
    cases he : alookup k (mergeAll (allAssignments bl) []) with
    | none =>
      rw [he] at h1 h2 h3
      simp only [Option.bind_none] at h1 h2 h3
      simp only [← h1, ← h2, ← h3, nonZero]
      rfl
    | some e =>
      rw [he] at h1 h2 h3
      simp only [Option.bind_some, Extra.get] at h1 h2 h3
      simp only [h1, h2, h3]
  unfold parseAttributeBlock
  rw [scan_spec atoms tail bl lines hlines [] false, ok_bind]
  cases hf : hasChgOrRad bl
  · refine congrArg Except.ok ?_
    apply List.map_congr_left
    rintro ⟨k, a⟩ _
    exact hfield k a
  · refine congrArg Except.ok ?_
    show List.map _ (List.map _ atoms) = _
    rw [List.map_map]
    apply List.map_congr_left
    rintro ⟨k, a⟩ _
    exact hfield k _

/-- the charge-code table as the reader applies it -/
theorem chargeCode_table : chargeCode 0 = (none, none) ∧ chargeCode 1 = (some 3, none) ∧ chargeCode 2 = (some 2, none) ∧
    chargeCode 3 = (some 1, none) ∧ chargeCode 4 = (none, some 2) ∧ chargeCode 5 = (some (-1), none) ∧
    chargeCode 6 = (some (-2), none) ∧ chargeCode 7 = (some (-3), none) ∧
    (∀ c : Int, c < 0 ∨ 7 < c → chargeCode c = (none, none)) := by
  refine ⟨by decide, by decide, by decide, by decide, by decide, by decide, by decide, by decide, ?_⟩
  intro c h
  have hk : ∀ k : Int, 1 ≤ k → k ≤ 7 → (k == c) = false := by
    intro k h1 h2
    simp only [beq_eq_false_iff_ne, ne_eq]
    omega
  simp only [chargeCode, Tables.v2000Charges, alookup, hk 1 (by omega) (by omega), hk 2 (by omega) (by omega),
    hk 3 (by omega) (by omega), hk 4 (by omega) (by omega), hk 5 (by omega) (by omega),
    hk 6 (by omega) (by omega), hk 7 (by omega) (by omega), Bool.false_eq_true, if_false, Option.getD_none]

end Tucan
