import TucanProofs.Lemmas.Files
import TucanProofs.Lemmas.GraphFromMoleculeKeys
/-!
# V3000 files with arbitrary atom indices

`V3States` fixes the atom indices of a V3000 file to `1 … n` in file order.  The format allows any distinct
positive integers, in any order; `graph_from_molecule` renumbers the atoms consecutively in file order.
`V3StatesIdx m idx coords atoms bonds` says that the `i`-th atom line carries the index `idx[i]` (pairwise
distinct) and that bond lines refer to atoms by these indices.  Such a file is read as a graph *of* `m`
(`IsGraphOf`): node `i` is the `i`-th listed atom, adjacency is the molecule's — so the numeric indices are
invisible from the graph on, and two files of molecules of the same identity get the same string whatever
indices they use (`isGraphOf_same_string`).
-/
namespace Tucan

/-- `g` is the graph of molecule `m` (coordinates spelled `c`): node `i` is atom `i` with the invariant code
added, `i` and `j` are adjacent exactly when `m` has a bond between them -/
structure IsGraphOf (g : Graph) (m : Mol) (c : List (Str × Str × Str)) : Prop where
  labels : g.labels = List.range m.atoms.length
  wf : g.WF
  simple : g.Simple
  attrs : ∀ i (h : i < m.atoms.length) (h' : i < c.length), g.attrs? i = some (GFM.inv' (m.atoms[i].record c[i]))
  adj : ∀ i j, j ∈ g.nbrs i ↔ ∃ b ∈ m.bonds, (b.a = i ∧ b.b = j) ∨ (b.a = j ∧ b.b = i)

/-- the graph `graph_from_molecule` builds from the molecule's own dictionaries is a graph of it -/
theorem isGraphOf_of_dicts (m : Mol) (hm : m.Ok) (c : List (Str × Str × Str)) (hc : c.length = m.atoms.length)
    (g : Graph) (post : List (Int × Atom)) (h : graphFromMolecule (m.atomDict c) m.bondDict = .ok (g, post)) :
    IsGraphOf g m c := by
  obtain ⟨g0, p0, h0, hl, hw, hs, ha, hn⟩ := Agree.graph_of_mol m hm c hc
  rw [h] at h0
  obtain ⟨rfl, -⟩ := Prod.mk.inj (Except.ok.inj h0)
  exact ⟨hl, hw, hs, ha, hn⟩

/-- graphs of two molecules of the same identity are the same molecule, atom `i` ↦ atom `i` -/
theorem isGraphOf_iso (m m' : Mol) (hm : m.Ok) (same : SameIdentity m m') (c c' : List (Str × Str × Str))
    (hc : c.length = m.atoms.length) (hc' : c'.length = m'.atoms.length) (g g' : Graph)
    (hg : IsGraphOf g m c) (hg' : IsGraphOf g' m' c') : g.Chem ∧ Iso SameIdent id g g' := by
  obtain ⟨hlab, hwf, hsimp, hattr, hnb⟩ := hg
  obtain ⟨hlab', hwf', hsimp', hattr', hnb'⟩ := hg'
  have hn := same.n
  refine ⟨?_, ?_⟩
  · intro a ha x hx
    rw [hlab, List.mem_range] at ha
    rw [hattr a ha (by omega)] at hx
    rw [← Option.some.inj hx]
    exact Agree.record_chem _ _ (hm.sym _ (List.getElem_mem _))
  · refine ⟨?_, fun a _ b _ h => h, ?_, ?_⟩
    · rw [List.map_id, hlab, hlab', hn]
    · intro a ha
      rw [hlab, List.mem_range] at ha
      exact ⟨_, _, hattr a ha (by omega), hattr' a (by omega) (by omega),
        Agree.record_sameIdent _ _ _ _ (same.atom a ha (by omega))⟩
    · intro a _
      rw [List.map_id]
      refine (List.perm_ext_iff_of_nodup (Agree.nbrs_nodup hwf' a) (Agree.nbrs_nodup hwf a)).2 ?_
      intro j
      show j ∈ g'.nbrs a ↔ j ∈ g.nbrs a
      rw [hnb, hnb']
      exact (same.bonds a j).symm

/-- … and get the same TUCAN string -/
theorem isGraphOf_same_string (O : CanonOracle) (m m' : Mol) (hm : m.Ok) (same : SameIdentity m m')
    (c c' : List (Str × Str × Str)) (hc : c.length = m.atoms.length) (hc' : c'.length = m'.atoms.length)
    (g g' : Graph) (hg : IsGraphOf g m c) (hg' : IsGraphOf g' m' c') (s s' : Str)
    (hs : tucanOf O.order g = .ok s) (hs' : tucanOf O.order g' = .ok s') : s = s' := by
  obtain ⟨hchem, hiso⟩ := isGraphOf_iso m m' hm same c c' hc hc' g g' hg hg'
  exact tucan_invariant O hiso hchem hg.wf hg.simple hg'.wf hg'.simple hs hs'

/-! ## arbitrary indices -/

/-- the `i`-th atom line states atom `a` under the index `k` -/
def V3StatesAtomIdx (a : MAtom) (k : Int) (c : Str × Str × Str) (e : AtomEntry) : Prop :=
  ∃ idxTok aamap ps, e = .real idxTok k a.sym c.1 c.2.1 c.2.2 aamap ps ∧
    lastNonZero (chgValues ps) = nzI a.chg ∧ lastNonZero (radValues ps) = nzI a.rad ∧
    ((detectHydrogenIsotopes a.sym).2 = 0 → lastNonZero (massValues ps) = nzI a.mass)

/-- a V3000 atom and bond block stating `m` with the atom indices `idx` (any pairwise distinct integers, in
any order); bond lines refer to atoms by index -/
structure V3StatesIdx (m : Mol) (idx : List Int) (coords : List (Str × Str × Str)) (atoms : List AtomEntry)
    (bonds : List BondEntry) : Prop where
  nIdx : idx.length = m.atoms.length
  distinct : idx.Nodup
  nAtoms : atoms.length = m.atoms.length ∧ coords.length = m.atoms.length
  nBonds : bonds.length = m.bonds.length
  atom : ∀ i (h : i < m.atoms.length) (h0 : i < idx.length) (h1 : i < coords.length) (h2 : i < atoms.length),
    V3StatesAtomIdx m.atoms[i] idx[i] coords[i] atoms[i]
  bond : ∀ j (h : j < m.bonds.length) (h2 : j < bonds.length) (ha : m.bonds[j].a < idx.length) (hb : m.bonds[j].b < idx.length),
    bonds[j].btype = m.bonds[j].t ∧ bonds[j].a1 = idx[m.bonds[j].a] ∧ bonds[j].a2 = idx[m.bonds[j].b]

namespace FIdx

/-- the index at position `i` (0 outside the list) -/
def ix (idx : List Int) (i : Nat) : Int := idx[i]?.getD 0

theorem ix_eq (idx : List Int) (i : Nat) (h : i < idx.length) : ix idx i = idx[i] := by
  simp [ix, h]

theorem ix_inj {idx : List Int} (hd : idx.Nodup) {i j : Nat} (hi : i < idx.length) (hj : j < idx.length)
    (h : ix idx i = ix idx j) : i = j := by
  rw [ix_eq idx i hi, ix_eq idx j hj] at h
  exact (List.getElem_inj hd).1 h

/-- the atom dictionary of a block stating `m` under the indices `idx` -/
def dict (m : Mol) (idx : List Int) (c : List (Str × Str × Str)) : List (Int × Atom) :=
  (idx.zip (m.atoms.zip c)).map fun p => (p.1 - 1, p.2.1.record p.2.2)

theorem dict_length (m : Mol) (idx : List Int) (c : List (Str × Str × Str))
    (hn : idx.length = m.atoms.length) (hc : c.length = m.atoms.length) :
    (dict m idx c).length = m.atoms.length := by
  simp [dict, hn, hc]

theorem dict_getElem (m : Mol) (idx : List Int) (c : List (Str × Str × Str)) (i : Nat)
    (h : i < (dict m idx c).length) (h0 : i < idx.length) (h1 : i < m.atoms.length) (h2 : i < c.length) :
    (dict m idx c)[i] = (idx[i] - 1, m.atoms[i].record c[i]) := by
  simp [dict]

theorem dict_keys (m : Mol) (idx : List Int) (c : List (Str × Str × Str))
    (hn : idx.length = m.atoms.length) (hc : c.length = m.atoms.length) :
    (dict m idx c).map (·.1) = idx.map (· - 1) := by
  apply List.ext_getElem
  · simp [dict, hn, hc]
  · intro i h1 h2
    simp [dict]

theorem dict_keys_nodup (m : Mol) (idx : List Int) (c : List (Str × Str × Str))
    (hn : idx.length = m.atoms.length) (hc : c.length = m.atoms.length) (hd : idx.Nodup) :
    ((dict m idx c).map (·.1)).Nodup := by
  rw [dict_keys m idx c hn hc, List.nodup_iff_pairwise_ne, List.pairwise_map]
  rw [List.nodup_iff_pairwise_ne] at hd
  exact hd.imp (fun h => by omega)

theorem keyPos_dict (m : Mol) (idx : List Int) (c : List (Str × Str × Str))
    (hn : idx.length = m.atoms.length) (hc : c.length = m.atoms.length) (hd : idx.Nodup)
    (i : Nat) (hi : i < m.atoms.length) : keyPos (dict m idx c) (ix idx i - 1) = some i := by
  have hl := dict_length m idx c hn hc
  have := GFMK.pos_getElem (dict_keys_nodup m idx c hn hc hd) i (by omega)
  rw [dict_getElem m idx c i (by omega) (by omega) hi (by omega)] at this
  rw [ix_eq idx i (by omega)]
  exact this

/-- the bond dictionary of such a block -/
def bondList (m : Mol) (idx : List Int) : List ((Int × Int) × Bond) :=
  m.bonds.map fun b => ((ix idx b.a - 1, ix idx b.b - 1), ({ btype := some b.t } : Bond))

theorem norm_eq {a b a' b' : Nat} (h : (a = a' ∧ b = b') ∨ (a = b' ∧ b = a')) :
    (if a ≤ b then (a, b) else (b, a)) = (if a' ≤ b' then (a', b') else (b', a')) := by
  rcases h with ⟨rfl, rfl⟩ | ⟨rfl, rfl⟩
  · rfl
  · split <;> split <;> simp only [Prod.mk.injEq] <;> omega

theorem norm_inv {A B A' B' : Int}
    (h : (if A ≤ B then (A, B) else (B, A)) = (if A' ≤ B' then (A', B') else (B', A'))) :
    (A = A' ∧ B = B') ∨ (A = B' ∧ B = A') := by
  revert h
  split <;> split <;> simp only [Prod.mk.injEq] <;> omega

theorem bondKeys_nodup (m : Mol) (hm : m.Ok) (idx : List Int) (hn : idx.length = m.atoms.length)
    (hd : idx.Nodup) : ((bondList m idx).map (·.1)).Nodup := by
  have h := hm.nodup
  rw [List.nodup_iff_pairwise_ne, List.pairwise_map] at h
  simp only [bondList, List.map_map]
  rw [List.nodup_iff_pairwise_ne, List.pairwise_map]
  refine List.Pairwise.imp_of_mem ?_ h
  intro b b' hb hb' hne heq
  apply hne
  obtain ⟨h1, h2, -⟩ := hm.bonds b hb
  obtain ⟨h1', h2', -⟩ := hm.bonds b' hb'
  simp only [Function.comp_apply, Prod.mk.injEq] at heq
  have e1 : b.a = b'.a := ix_inj hd (by omega) (by omega) (by omega)
  have e2 : b.b = b'.b := ix_inj hd (by omega) (by omega) (by omega)
  rw [e1, e2]

theorem goodKeyBonds (m : Mol) (hm : m.Ok) (idx : List Int) (c : List (Str × Str × Str))
    (hn : idx.length = m.atoms.length) (hc : c.length = m.atoms.length) (hd : idx.Nodup) :
    GoodKeyBonds (dict m idx c) (bondList m idx) := by
  constructor
  · intro b hb
    obtain ⟨b0, hb0, rfl⟩ := List.mem_map.1 hb
    obtain ⟨h1, h2, h3⟩ := hm.bonds b0 hb0
    refine ⟨?_, ?_, ?_⟩
    · simp only [keyPos_dict m idx c hn hc hd _ h1, Option.isSome_some]
    · simp only [keyPos_dict m idx c hn hc hd _ h2, Option.isSome_some]
    · intro he
      exact h3 (ix_inj hd (by omega) (by omega) (by simp only at he; omega))
  · have h := hm.nodup
    rw [List.nodup_iff_pairwise_ne, List.pairwise_map] at h
    simp only [bondList, List.map_map]
    rw [List.nodup_iff_pairwise_ne, List.pairwise_map]
    refine List.Pairwise.imp_of_mem ?_ h
    intro b b' hb hb' hne heq
    apply hne
    obtain ⟨h1, h2, -⟩ := hm.bonds b hb
    obtain ⟨h1', h2', -⟩ := hm.bonds b' hb'
    simp only [Function.comp_apply] at heq
    apply norm_eq
    rcases norm_inv heq with ⟨e1, e2⟩ | ⟨e1, e2⟩
    · exact Or.inl ⟨ix_inj hd (by omega) (by omega) (by omega), ix_inj hd (by omega) (by omega) (by omega)⟩
    · exact Or.inr ⟨ix_inj hd (by omega) (by omega) (by omega), ix_inj hd (by omega) (by omega) (by omega)⟩

/-- the dictionaries the reader returns for a block stating `m` under the indices `idx` -/
theorem dicts_of_statesIdx (m : Mol) (hm : m.Ok) (idx : List Int) (coords : List (Str × Str × Str))
    (atoms : List AtomEntry) (bonds : List BondEntry) (h : V3StatesIdx m idx coords atoms bonds) :
    atomDictOf atoms = dict m idx coords ∧ starsOf atoms = [] ∧
      bondDictOf (starsOf atoms) bonds = bondList m idx := by
  obtain ⟨hnI, hdist, ⟨hn1, hn2⟩, hnB, hatom, hbond⟩ := h
  have hlen := dict_length m idx coords hnI hn2
  have hentries : atoms.map (fun e => (e.idx - 1, e.record)) =
      (dict m idx coords).map (fun p => (p.1, some p.2)) := by
    apply List.ext_getElem
    · simp [hlen, hn1]
    · intro i h1 h2
      have hi : i < atoms.length := by simpa using h1
      obtain ⟨idxTok, aamap, ps, he, hc, hr, hms⟩ := hatom i (by omega) (by omega) (by omega) hi
      rw [List.getElem_map, List.getElem_map,
        dict_getElem m idx coords i (by simpa using h2) (by omega) (by omega) (by omega), he]
      simp only [AtomEntry.idx, AtomEntry.record, MAtom.record, hc, hr, Prod.mk.injEq, Option.some.injEq,
        true_and]
      by_cases hz : (detectHydrogenIsotopes m.atoms[i].sym).2 = 0
      · simp only [hz, hms hz, if_true]; rfl
      · simp only [hz, if_false]; rfl
  have hstars : starsOf atoms = [] := by
    unfold starsOf
    rw [List.filterMap_eq_nil_iff]
    intro e he
    obtain ⟨i, hi, rfl⟩ := List.getElem_of_mem he
    obtain ⟨idxTok, aamap, ps, he', -⟩ := hatom i (by omega) (by omega) (by omega) hi
    rw [he']
    rfl
  refine ⟨?_, hstars, ?_⟩
  · have e1 : atomDictOf atoms = (atoms.map (fun e => (e.idx - 1, e.record))).foldl
        (fun d (p : Int × Option Atom) => match p.2 with
          | some a => ainsert p.1 a d
          | none => d) [] := by
      simp only [atomDictOf, List.foldl_map]
      rfl
    rw [e1, hentries, List.foldl_map]
    exact Agree.foldl_ainsert_nodup _ (dict_keys_nodup m idx coords hnI hn2 hdist)
  · rw [hstars]
    have e1 : bondDictOf [] bonds = (bonds.map fun b =>
        ((b.a1 - 1, b.a2 - 1), ({ btype := some b.btype } : Bond))).foldl (fun d p => ainsert p.1 p.2 d) [] := by
      simp only [bondDictOf, BondEntry.tuples, List.foldl_map]
      rfl
    have e2 : (bonds.map fun b => ((b.a1 - 1, b.a2 - 1), ({ btype := some b.btype } : Bond))) =
        bondList m idx := by
      apply List.ext_getElem
      · simp [bondList, hnB]
      · intro j h1 h2
        have hj : j < bonds.length := by simpa using h1
        have hj' : j < m.bonds.length := by omega
        obtain ⟨ha, hb, -⟩ := hm.bonds m.bonds[j] (List.getElem_mem hj')
        obtain ⟨b1, b2, b3⟩ := hbond j hj' hj (by omega) (by omega)
        simp only [bondList, List.getElem_map, b1, b2, b3, ix_eq idx _ (show m.bonds[j].a < idx.length by omega),
          ix_eq idx _ (show m.bonds[j].b < idx.length by omega)]
    rw [e1, e2]
    exact Agree.foldl_ainsert_nodup _ (bondKeys_nodup m hm idx hnI hdist)

end FIdx

/-- such a block has no star atoms and well-formed bonds -/
theorem v3BondsOk_of_statesIdx (m : Mol) (hm : m.Ok) (idx : List Int) (coords : List (Str × Str × Str))
    (atoms : List AtomEntry) (bonds : List BondEntry) (h : V3StatesIdx m idx coords atoms bonds) :
    V3BondsOk atoms bonds := by
  obtain ⟨hd, hs, -⟩ := FIdx.dicts_of_statesIdx m hm idx coords atoms bonds h
  have hkey : ∀ k : Nat, k < m.atoms.length → (alookup (FIdx.ix idx k - 1) (atomDictOf atoms)).isSome = true := by
    intro k hk
    rw [hd]
    apply WR.alookup_isSome
    exact GFMK.pos_mem (FIdx.keyPos_dict m idx coords h.nIdx h.nAtoms.2 h.distinct k hk)
  refine ⟨?_, ?_⟩
  · intro b _ hc
    rw [hs] at hc
    simp at hc
  · intro b hb t ht
    rw [hs] at ht
    obtain ⟨j, hj, rfl⟩ := List.getElem_of_mem hb
    have hj' : j < m.bonds.length := h.nBonds ▸ hj
    obtain ⟨ha, hb', _⟩ := hm.bonds m.bonds[j] (List.getElem_mem hj')
    have hnI := h.nIdx
    obtain ⟨_, h1, h2⟩ := h.bond j hj' hj (by omega) (by omega)
    have : t = (FIdx.ix idx m.bonds[j].a - 1, FIdx.ix idx m.bonds[j].b - 1) := by
      simp only [BondEntry.tuples, List.contains_nil, Bool.false_eq_true, if_false, List.mem_singleton] at ht
      rw [ht, h1, h2, FIdx.ix_eq idx _ (by omega), FIdx.ix_eq idx _ (by omega)]
    subst this
    exact ⟨hkey _ ha, hkey _ hb'⟩

/-- **the graph does not see the indices**: the dictionaries the reader returns for such a block are turned by
`graph_from_molecule` into a graph of `m` -/
theorem graph_of_statesIdx (m : Mol) (hm : m.Ok) (idx : List Int) (coords : List (Str × Str × Str))
    (atoms : List AtomEntry) (bonds : List BondEntry) (h : V3StatesIdx m idx coords atoms bonds) :
    ∃ g post, graphFromMolecule (atomDictOf atoms) (bondDictOf (starsOf atoms) bonds) = .ok (g, post) ∧
      IsGraphOf g m coords := by
  obtain ⟨hd, -, hbd⟩ := FIdx.dicts_of_statesIdx m hm idx coords atoms bonds h
  have hnI := h.nIdx
  have hnC := h.nAtoms.2
  have hdist := h.distinct
  have hlen := FIdx.dict_length m idx coords hnI hnC
  have hpos := FIdx.keyPos_dict m idx coords hnI hnC hdist
  have hzs : ∀ a ∈ FIdx.dict m idx coords, a.2.z.isSome := by
    intro a ha
    obtain ⟨i, hi, rfl⟩ := List.getElem_of_mem ha
    rw [FIdx.dict_getElem m idx coords i hi (by omega) (by omega) (by omega)]
    exact Agree.record_z _ _ (hm.sym _ (List.getElem_mem _))
  obtain ⟨g, post, hg, hlab, hwf, hsimp, hattr, hadj⟩ :=
    graphFromMolecule_keys (FIdx.dict m idx coords) (FIdx.bondList m idx)
      (FIdx.dict_keys_nodup m idx coords hnI hnC hdist) (FIdx.goodKeyBonds m hm idx coords hnI hnC hdist) hzs
  rw [hd, hbd]
  refine ⟨g, post, hg, by rw [hlab, hlen], hwf, hsimp, ?_, ?_⟩
  · intro i hi hi'
    obtain ⟨x, hx, hgx⟩ := hattr i (by omega)
    rw [FIdx.dict_getElem m idx coords i (by omega) (by omega) hi hi'] at hx
    rw [GFM.addInvariantCode_ok (Agree.record_z _ _ (hm.sym _ (List.getElem_mem _)))] at hx
    rw [hgx, ← Except.ok.inj hx]
  · intro i j
    rw [NxE.nbrs_eq_map, List.mem_map]
    constructor
    · rintro ⟨⟨j', d⟩, hjd, rfl⟩
      obtain ⟨k, l, hk, hl, hb | hb⟩ := (hadj i j' d).1 hjd
      · obtain ⟨b, hbm, he⟩ := List.mem_map.1 hb
        obtain ⟨h1, h2, -⟩ := hm.bonds b hbm
        simp only [Prod.mk.injEq] at he
        obtain ⟨⟨rfl, rfl⟩, -⟩ := he
        rw [hpos _ h1] at hk
        rw [hpos _ h2] at hl
        exact ⟨b, hbm, Or.inl ⟨Option.some.inj hk, Option.some.inj hl⟩⟩
      · obtain ⟨b, hbm, he⟩ := List.mem_map.1 hb
        obtain ⟨h1, h2, -⟩ := hm.bonds b hbm
        simp only [Prod.mk.injEq] at he
        obtain ⟨⟨rfl, rfl⟩, -⟩ := he
        rw [hpos _ h1] at hl
        rw [hpos _ h2] at hk
        exact ⟨b, hbm, Or.inr ⟨Option.some.inj hl, Option.some.inj hk⟩⟩
    · rintro ⟨b, hb, ⟨rfl, rfl⟩ | ⟨rfl, rfl⟩⟩
      · obtain ⟨h1, h2, -⟩ := hm.bonds b hb
        exact ⟨(b.b, { btype := some b.t }), (hadj _ _ _).2 ⟨_, _, hpos _ h1, hpos _ h2,
          Or.inl (List.mem_map.2 ⟨b, hb, rfl⟩)⟩, rfl⟩
      · obtain ⟨h1, h2, -⟩ := hm.bonds b hb
        exact ⟨(b.a, { btype := some b.t }), (hadj _ _ _).2 ⟨_, _, hpos _ h2, hpos _ h1,
          Or.inr (List.mem_map.2 ⟨b, hb, rfl⟩)⟩, rfl⟩

/-- **text level**: a V3000 file with arbitrary indices is read as a graph of the molecule it states -/
theorem v3000_text_reads_graph_of (m : Mol) (hm : m.Ok) (idx : List Int) (coords : List (Str × Str × Str))
    (text : Str) (lines : List Str) (atoms : List AtomEntry) (bonds : List BondEntry)
    (ht : IsTextOf text lines) (f : IsV3000File lines atoms bonds)
    (hver : ∀ l3, lines[3]? = some l3 → EndsInWord l3 (cs "V3000"))
    (h : V3StatesIdx m idx coords atoms bonds) :
    ∃ g, graphFromMolfileText text = .ok g ∧ IsGraphOf g m coords := by
  obtain ⟨hnb, eol, he, htext⟩ := ht
  obtain ⟨l3, hl3⟩ := f.line3
  have := (graphFromMolfileText_dispatch eol he lines hnb text htext l3 hl3).1 (hver l3 hl3)
  obtain ⟨g, post, hg, hG⟩ := graph_of_statesIdx m hm idx coords atoms bonds h
  refine ⟨g, ?_, hG⟩
  rw [this, f.reads (v3BondsOk_of_statesIdx m hm idx coords atoms bonds h)]
  show (graphFromMolecule _ _ >>= _) = _
  rw [hg]
  rfl

/-- a text that `ReadsAs` a molecule is read as a graph of it -/
theorem readsAs_graph_of (m : Mol) (hm : m.Ok) (c : List (Str × Str × Str)) (hc : c.length = m.atoms.length)
    (text : Str) (r : ReadsAs text m c) : ∃ g, graphFromMolfileText text = .ok g ∧ IsGraphOf g m c := by
  obtain ⟨g, post, hg, hl, hw, hs, ha, hn⟩ := Agree.graph_of_mol m hm c hc
  exact ⟨g, by rw [r, hg]; rfl, ⟨hl, hw, hs, ha, hn⟩⟩

end Tucan
