import TucanProofs.Lemmas.FilesIdx
import TucanProofs.Lemmas.RoundTripPipeline
import TucanProofs.Lemmas.Totality
/-!
# From a conformant molfile to a sentence of the grammar

A graph *of* a molecule whose stated isotope masses and radicals are non-negative (0 = not stated; the
CTfile specification has no negative mass or radical) is in the domain `MolAtoms` of the round-trip and
grammar theorems, and it is not empty if the molecule has an atom.  So for every conformant molfile the
pipeline returns a string, that string is a sentence of the grammar, and parsing it gives the molecule back.
-/
namespace Tucan

/-- masses and radicals as the CTfile specification allows them: not negative, of a printable size -/
structure Mol.Conformant (m : Mol) : Prop where
  ok : m.Ok
  mass : ∀ a ∈ m.atoms, 0 ≤ a.mass ∧ (intRepr a.mass).length ≤ intMaxStrDigits
  rad : ∀ a ∈ m.atoms, 0 ≤ a.rad ∧ (intRepr a.rad).length ≤ intMaxStrDigits

theorem nzI_some {v w : Int} (h : nzI v = some w) : v = w ∧ v ≠ 0 := by
  unfold nzI at h
  by_cases h0 : v = 0
  · simp [h0] at h
  · simp [h0] at h
    exact ⟨h, h0⟩

theorem det_snd (s : Str) : (detectHydrogenIsotopes s).2 = 0 ∨ (detectHydrogenIsotopes s).2 = 2 ∨
    (detectHydrogenIsotopes s).2 = 3 := by
  unfold detectHydrogenIsotopes
  by_cases h1 : (s == ['D']) = true
  · simp [h1]
  · by_cases h2 : (s == ['T']) = true
    · simp [h1, h2]
    · simp [h1, h2]

theorem record_molAtom (m : Mol) (hm : m.Conformant) (a : MAtom) (ha : a ∈ m.atoms) (c : Str × Str × Str) :
    MolAtom (GFM.inv' (a.record c)) := by
  refine ⟨Agree.record_chem _ _ (hm.ok.sym a ha), ⟨_, rfl⟩, ?_, ?_⟩
  · intro v hv
    simp only [GFM.inv', MAtom.record] at hv
    by_cases h0 : (detectHydrogenIsotopes a.sym).2 = 0
    · simp only [h0, if_true] at hv
      obtain ⟨rfl, hne⟩ := nzI_some hv
      obtain ⟨h1, h2⟩ := hm.mass a ha
      exact ⟨by omega, h2⟩
    · simp only [h0, if_false] at hv
      have hv := Option.some.inj hv
      rcases det_snd a.sym with h | h | h
      · exact absurd h h0
      · rw [← hv, h]; exact ⟨by decide, by decide⟩
      · rw [← hv, h]; exact ⟨by decide, by decide⟩
  · intro v hv
    simp only [GFM.inv', MAtom.record] at hv
    obtain ⟨rfl, hne⟩ := nzI_some hv
    obtain ⟨h1, h2⟩ := hm.rad a ha
    exact ⟨by omega, h2⟩

theorem isGraphOf_molAtoms (g : Graph) (m : Mol) (c : List (Str × Str × Str)) (hc : c.length = m.atoms.length)
    (hm : m.Conformant) (hg : IsGraphOf g m c) : g.MolAtoms := by
  intro a ha x hx
  rw [hg.labels, List.mem_range] at ha
  rw [hg.attrs a ha (by omega)] at hx
  rw [← Option.some.inj hx]
  exact record_molAtom m hm _ (List.getElem_mem _) _

/-- **every conformant molfile gets a string** (the model pipeline returns), for every oracle that returns
permutations -/
theorem isGraphOf_pipeline_total (order : Graph → List Nat) (hperm : ∀ r : Graph, r.WF → (order r).Perm r.labels)
    (g : Graph) (m : Mol) (c : List (Str × Str × Str)) (hc : c.length = m.atoms.length)
    (hm : m.Conformant) (hne : m.atoms ≠ []) (hg : IsGraphOf g m c) : ∃ s, tucanOf order g = .ok s := by
  refine pipeline_total order hperm g hg.wf hg.simple ?_ ?_
  · rw [hg.labels]
    intro h
    have := congrArg List.length h
    simp at this
    exact hne this
  · intro a ha
    rw [hg.labels, List.mem_range] at ha
    refine ⟨_, hg.attrs a ha (by omega), ?_⟩
    obtain ⟨z, hz, -, hi, -⟩ := Agree.record_chem m.atoms[a] c[a] (hm.ok.sym _ (List.getElem_mem _))
    rw [hz, hi]
    exact ⟨rfl, rfl⟩

/-- **… which is a sentence of the grammar and parses back to the molecule** -/
theorem isGraphOf_string_is_sentence (order : Graph → List Nat) (hperm : ∀ r : Graph, r.WF → (order r).Perm r.labels)
    (g : Graph) (m : Mol) (c : List (Str × Str × Str)) (hc : c.length = m.atoms.length)
    (hm : m.Conformant) (hg : IsGraphOf g m c)
    (hsize : (natRepr (m.atoms.length + 1)).length ≤ intMaxStrDigits)
    (s : Str) (h : tucanOf order g = .ok s) :
    (∃ toks ast, lex s = some toks ∧ Sentence toks ast) ∧
    (∃ H τ, graphFromTucan s = .ok H ∧ Iso SameIdent τ g H) := by
  have hn : g.numberOfNodes = m.atoms.length := by
    have := congrArg List.length hg.labels
    simpa [Graph.labels, Graph.numberOfNodes] using this
  obtain ⟨H, τ, hp, hiso, -⟩ := pipeline_roundtrip order hperm g hg.wf hg.simple
    (isGraphOf_molAtoms g m c hc hm hg) (by rw [hn]; exact hsize) s h
  refine ⟨?_, H, τ, hp, hiso⟩
  unfold graphFromTucan at hp
  cases hl : lex s with
  | none => simp [hl, bind, Except.bind] at hp
  | some toks =>
    cases hpt : parseTucan toks with
    | none => simp [hl, hpt, bind, Except.bind, pure, Except.pure] at hp
    | some ast => exact ⟨toks, ast, rfl, (parseTucan_iff toks ast).mp hpt⟩

end Tucan
