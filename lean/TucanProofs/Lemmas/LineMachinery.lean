import TucanProofs.Lemmas.Wrap
import TucanProofs.Lemmas.Tables
/-!
# S7 — line machinery shared by the molfile readers and the writer

* decimal text round trips: `int(str(n)) = n`;
* `line.rstrip().split(" ")` without empty pieces inverts joining blank-free tokens with blanks;
* splicing a whole block of wrapped logical lines restores all of them;
* the writer's atom and bond lines are decoded by the V3000 reader to what was written.
-/
namespace Tucan
namespace LineM

theorem isDigit_iff (c : Char) : isDigit c = true ↔ 48 ≤ c.toNat ∧ c.toNat ≤ 57 := by
  simp only [isDigit, Bool.and_eq_true, decide_eq_true_eq]
  exact Iff.rfl

theorem isPySpace_toNat {c : Char} (h : isPySpace c = true) : c.toNat ≤ 32 := by
  simp only [isPySpace, Bool.or_eq_true, beq_iff_eq, Bool.and_eq_true, decide_eq_true_eq] at h
  rcases h with (((((rfl | rfl) | rfl) | rfl) | h) | h) | h
  · decide
  · decide
  · decide
  · decide
  · omega
  · omega
  · omega

theorem not_space_of_gt {c : Char} (h : 32 < c.toNat) : isPySpace c = false := by
  cases hs : isPySpace c with
  | false => rfl
  | true => have := isPySpace_toNat hs; omega

theorem isDigit_not_space {c : Char} (h : isDigit c = true) : isPySpace c = false :=
  not_space_of_gt (by have := (isDigit_iff c).1 h; omega)

theorem charIsDigit_isDigit {c : Char} (h : c.isDigit = true) : isDigit c = true := by
  rw [isDigit_iff]
  simp only [Char.isDigit, Bool.and_eq_true, decide_eq_true_eq, ge_iff_le, UInt32.le_iff_toNat_le] at h
  exact h

theorem natRepr_eq (n : Nat) : natRepr n = Nat.toDigits 10 n := by simp [natRepr]

theorem natOfDigits_eq (ds : List Char) : natOfDigits ds = Nat.ofDigitChars 10 ds 0 := by
  simp only [natOfDigits, Nat.ofDigitChars, digitVal]
  congr 1
  funext a c
  rw [Nat.mul_comm]

theorem natOfDigits_natRepr (n : Nat) : natOfDigits (natRepr n) = n := by
  rw [natOfDigits_eq, natRepr_eq]; exact Nat.ofDigitChars_ten_toDigits

theorem toDigits_head (n : Nat) : n ≠ 0 → (Nat.toDigits 10 n).head? ≠ some '0' := by
  induction n using Nat.strongRecOn with
  | _ n ih =>
    intro hn
    rw [Nat.toDigits_eq_if (by decide)]
    split
    · simp [hn]
    · have hne : Nat.toDigits 10 (n / 10) ≠ [] := Nat.toDigits_ne_nil
      have := ih (n / 10) (by omega) (by omega)
      cases hd : Nat.toDigits 10 (n / 10) with
      | nil => exact absurd hd hne
      | cons a r => rw [hd] at this; simpa using this

theorem dropWhile_of_all {p : Char → Bool} : ∀ (t : Str), (∀ c ∈ t, p c = false) → t.dropWhile p = t := by
  intro t h
  cases t with
  | nil => rfl
  | cons c r => simp [List.dropWhile, h c (by simp)]

theorem dropWhileEnd_of_all {p : Char → Bool} (t : Str) (h : ∀ c ∈ t, p c = false) : dropWhileEnd p t = t := by
  unfold dropWhileEnd
  rw [dropWhile_of_all t.reverse (fun c hc => h c (List.mem_reverse.1 hc)), List.reverse_reverse]

theorem strip_of_all (t : Str) (h : ∀ c ∈ t, isPySpace c = false) : strip t = t := by
  unfold strip
  rw [dropWhile_of_all t h, dropWhileEnd_of_all t h]

theorem digitsGo_one : ∀ (ds : Str), (∀ c ∈ ds, isDigit c = true) → digitsGo 1 ds = some ds := by
  intro ds
  induction ds with
  | nil => intro _; rfl
  | cons c r ih =>
    intro h
    simp only [digitsGo, h c (by simp), if_true, ih (fun x hx => h x (by simp [hx])), Option.map_some]

theorem digitsWithUnderscores_digits (ds : Str) (hne : ds ≠ []) (h : ∀ c ∈ ds, isDigit c = true) :
    digitsWithUnderscores ds = some ds := by
  cases ds with
  | nil => exact absurd rfl hne
  | cons c r =>
    simp only [digitsWithUnderscores, digitsGo, h c (by simp), if_true,
      digitsGo_one r (fun x hx => h x (by simp [hx])), Option.map_some]

theorem pyInt_digits (ds : Str) (hne : ds ≠ []) (h : ∀ c ∈ ds, isDigit c = true)
    (hlen : ds.length ≤ intMaxStrDigits) : pyInt ds = .ok (natOfDigits ds : Int) := by
  have hstrip : strip ds = ds := strip_of_all ds (fun c hc => isDigit_not_space (h c hc))
  have hmatch : pyInt.match_1 (fun _ => Bool × List Char) ds
      (fun r => (true, r)) (fun r => (false, r)) (fun r => (false, r)) = (false, ds) := by
    split
    · exact absurd (h '-' (by simp)) (by decide)
    · exact absurd (h '+' (by simp)) (by decide)
    · rfl
  unfold pyInt
  simp only [hstrip, hmatch, digitsWithUnderscores_digits ds hne h]
  rw [if_neg (by omega)]
  simp

theorem pyInt_neg_digits (ds : Str) (hne : ds ≠ []) (h : ∀ c ∈ ds, isDigit c = true)
    (hlen : ds.length ≤ intMaxStrDigits) : pyInt ('-' :: ds) = .ok (-(natOfDigits ds : Int)) := by
  have hstrip : strip ('-' :: ds) = '-' :: ds := strip_of_all _ (by
    intro c hc
    rcases List.mem_cons.1 hc with rfl | hc
    · decide
    · exact isDigit_not_space (h c hc))
  unfold pyInt
  simp only [hstrip, digitsWithUnderscores_digits ds hne h]
  rw [if_neg (by omega)]
  simp

theorem natRepr_shape' (n : Nat) :
    natRepr n ≠ [] ∧ (∀ c ∈ natRepr n, isDigit c = true) ∧ (n ≠ 0 → (natRepr n).head? ≠ some '0') := by
  rw [natRepr_eq]
  exact ⟨Nat.toDigits_ne_nil, fun c hc => charIsDigit_isDigit (Nat.isDigit_of_mem_toDigits (by decide) (by decide) hc),
    toDigits_head n⟩

end LineM
open LineM

theorem pyInt_natRepr (n : Nat) (h : (natRepr n).length ≤ intMaxStrDigits) : pyInt (natRepr n) = .ok (n : Int) := by
  obtain ⟨h1, h2, _⟩ := natRepr_shape' n
  rw [pyInt_digits _ h1 h2 h, natOfDigits_natRepr]

theorem pyInt_intRepr (i : Int) (h : (intRepr i).length ≤ intMaxStrDigits) : pyInt (intRepr i) = .ok i := by
  cases i with
  | ofNat n => exact pyInt_natRepr n h
  | negSucc n =>
    obtain ⟨h1, h2, _⟩ := natRepr_shape' (n + 1)
    simp only [intRepr, List.length_cons] at h ⊢
    rw [pyInt_neg_digits _ h1 h2 (by omega), natOfDigits_natRepr]
    rfl

theorem natRepr_shape (n : Nat) :
    natRepr n ≠ [] ∧ (∀ c ∈ natRepr n, isDigit c = true) ∧ (n ≠ 0 → (natRepr n).head? ≠ some '0') :=
  natRepr_shape' n

/-- a token: non-empty and free of white space -/
def IsToken (t : Str) : Prop := t ≠ [] ∧ ∀ c ∈ t, isPySpace c = false

/-- tokens joined by runs of at least one blank each (`gaps[i] ≥ 1` blanks before token `i+1`), with
optional leading and trailing blanks -/
def joinBlanks (lead : Nat) (trail : Nat) : List Str → List Nat → Str
  | [], _ => List.replicate (lead + trail) ' '
  | [t], _ => List.replicate lead ' ' ++ t ++ List.replicate trail ' '
  | t :: ts, gaps =>
    List.replicate lead ' ' ++ t ++ joinBlanks ((gaps.headD 0) + 1) trail ts gaps.tail

namespace LineM

/-- split on blanks and drop the empty pieces -/
def tk (s : Str) : List Str := (splitOnChar ' ' s).filter (· != [])

theorem isToken_no_blank {t : Str} (h : IsToken t) : ' ' ∉ t := fun hm => by
  have := h.2 ' ' hm; revert this; decide

theorem split_tok_append (t : Str) (h : ' ' ∉ t) (rest : Str) :
    splitOnChar ' ' (t ++ ' ' :: rest) = t :: splitOnChar ' ' rest := by
  induction t with
  | nil => simp [splitOnChar]
  | cons c r ih =>
    have hc : (c == ' ') = false := by
      simp only [beq_eq_false_iff_ne, ne_eq]; rintro rfl; exact h (by simp)
    have := ih (fun hm => h (by simp [hm]))
    simp only [List.cons_append, splitOnChar, hc, Bool.false_eq_true, if_false, this]

theorem split_tok (t : Str) (h : ' ' ∉ t) : splitOnChar ' ' t = [t] := by
  induction t with
  | nil => simp [splitOnChar]
  | cons c r ih =>
    have hc : (c == ' ') = false := by
      simp only [beq_eq_false_iff_ne, ne_eq]; rintro rfl; exact h (by simp)
    have := ih (fun hm => h (by simp [hm]))
    simp only [splitOnChar, hc, Bool.false_eq_true, if_false, this]

theorem tk_nil : tk [] = [] := by simp [tk, splitOnChar]

theorem tk_blank (s : Str) : tk (' ' :: s) = tk s := by simp [tk, splitOnChar]

theorem tk_replicate (k : Nat) (s : Str) : tk (List.replicate k ' ' ++ s) = tk s := by
  induction k with
  | zero => simp
  | succ k ih => rw [List.replicate_succ, List.cons_append, tk_blank, ih]

theorem tk_tok_blank {t : Str} (ht : IsToken t) (rest : Str) : tk (t ++ ' ' :: rest) = t :: tk rest := by
  simp only [tk, split_tok_append t (isToken_no_blank ht), List.filter_cons]
  have : (t != []) = true := by simpa using ht.1
  simp [this]

theorem tk_tok {t : Str} (ht : IsToken t) : tk t = [t] := by
  simp only [tk, split_tok t (isToken_no_blank ht), List.filter_cons]
  have : (t != []) = true := by simpa using ht.1
  simp [this]

theorem tk_tok_replicate {t : Str} (ht : IsToken t) (k : Nat) : tk (t ++ List.replicate k ' ') = [t] := by
  cases k with
  | zero => simpa using tk_tok ht
  | succ k =>
    rw [List.replicate_succ, tk_tok_blank ht]
    have := tk_replicate k []
    rw [List.append_nil] at this
    rw [this, tk_nil]

theorem joinBlanks_succ (lead trail : Nat) (t : Str) (ts : List Str) (gaps : List Nat) :
    joinBlanks (lead + 1) trail (t :: ts) gaps = ' ' :: joinBlanks lead trail (t :: ts) gaps := by
  cases ts with
  | nil => simp [joinBlanks, List.replicate_succ]
  | cons t' ts' => simp [joinBlanks, List.replicate_succ]

theorem tk_joinBlanks : ∀ (toks : List Str), (∀ t ∈ toks, IsToken t) → ∀ (lead trail : Nat) (gaps : List Nat),
    tk (joinBlanks lead trail toks gaps) = toks := by
  intro toks
  induction toks with
  | nil =>
    intro _ lead trail gaps
    have := tk_replicate (lead + trail) []
    rw [List.append_nil] at this
    simp only [joinBlanks, this, tk_nil]
  | cons t ts ih =>
    intro h lead trail gaps
    have ht : IsToken t := h t (by simp)
    cases ts with
    | nil =>
      simp only [joinBlanks, List.append_assoc, tk_replicate, tk_tok_replicate ht]
    | cons t' ts' =>
      have := ih (fun x hx => h x (by simp [hx])) (gaps.headD 0) trail gaps.tail
      simp only [joinBlanks, joinBlanks_succ] at this ⊢
      simp only [List.append_assoc, tk_replicate, tk_tok_blank ht, this]

/-- the text ends in a character that is not white space -/
def EndsNonSpace (x : Str) : Prop := ∃ y c, x = y ++ [c] ∧ isPySpace c = false

theorem EndsNonSpace.append_left {x : Str} (a : Str) (h : EndsNonSpace x) : EndsNonSpace (a ++ x) := by
  obtain ⟨y, c, rfl, hc⟩ := h
  exact ⟨a ++ y, c, by simp, hc⟩

theorem isToken_endsNonSpace {t : Str} (h : IsToken t) : EndsNonSpace t :=
  ⟨t.dropLast, t.getLast h.1, (List.dropLast_concat_getLast h.1).symm, h.2 _ (List.getLast_mem h.1)⟩

theorem dropWhile_replicate_blank (k : Nat) (c : Char) (z : Str) (hc : isPySpace c = false) :
    (List.replicate k ' ' ++ c :: z).dropWhile isPySpace = c :: z := by
  induction k with
  | zero => simp [hc]
  | succ k ih =>
    have : isPySpace ' ' = true := by decide
    simp only [List.replicate_succ, List.cons_append, List.dropWhile, this, ih]

theorem rstrip_endsNonSpace {x : Str} (h : EndsNonSpace x) (k : Nat) : rstrip (x ++ List.replicate k ' ') = x := by
  obtain ⟨y, c, rfl, hc⟩ := h
  simp only [rstrip, dropWhileEnd, List.reverse_append, List.reverse_replicate, List.reverse_cons,
    List.singleton_append, List.append_assoc]
  rw [dropWhile_replicate_blank k c _ hc]
  simp

theorem rstrip_replicate (k : Nat) : rstrip (List.replicate k ' ') = [] := by
  simp only [rstrip, dropWhileEnd, List.reverse_replicate]
  have : ∀ k, (List.replicate k ' ').dropWhile isPySpace = [] := by
    intro k
    induction k with
    | zero => rfl
    | succ k ih =>
      have : isPySpace ' ' = true := by decide
      simp only [List.replicate_succ, List.dropWhile, this, ih]
  rw [this]; rfl

theorem joinBlanks_trail : ∀ (toks : List Str) (lead trail : Nat) (gaps : List Nat),
    joinBlanks lead trail toks gaps = joinBlanks lead 0 toks gaps ++ List.replicate trail ' ' := by
  intro toks
  induction toks with
  | nil => intro lead trail gaps; simp [joinBlanks]
  | cons t ts ih =>
    intro lead trail gaps
    cases ts with
    | nil => simp [joinBlanks]
    | cons t' ts' =>
      have := ih (gaps.headD 0 + 1) trail gaps.tail
      simp only [joinBlanks] at this ⊢
      rw [this]; simp

theorem joinBlanks_endsNonSpace : ∀ (toks : List Str), toks ≠ [] → (∀ t ∈ toks, IsToken t) →
    ∀ (lead : Nat) (gaps : List Nat), EndsNonSpace (joinBlanks lead 0 toks gaps) := by
  intro toks
  induction toks with
  | nil => intro h; exact absurd rfl h
  | cons t ts ih =>
    intro _ h lead gaps
    have ht : IsToken t := h t (by simp)
    cases ts with
    | nil =>
      simp only [joinBlanks, List.replicate_zero, List.append_nil]
      exact (isToken_endsNonSpace ht).append_left _
    | cons t' ts' =>
      have := ih (by simp) (fun x hx => h x (by simp [hx])) (gaps.headD 0 + 1) gaps.tail
      simp only [joinBlanks] at this ⊢
      exact this.append_left _

end LineM
open LineM

/-- the reader's tokenizer inverts joining tokens with arbitrary runs of blanks -/
theorem tokenizeLine_joinBlanks (toks : List Str) (h : ∀ t ∈ toks, IsToken t) (lead trail : Nat) (gaps : List Nat) :
    tokenizeLine (joinBlanks lead trail toks gaps) = toks := by
  show tk (rstrip (joinBlanks lead trail toks gaps)) = toks
  by_cases hn : toks = []
  · subst hn
    simp only [joinBlanks, rstrip_replicate, tk_nil]
  · rw [joinBlanks_trail, rstrip_endsNonSpace (joinBlanks_endsNonSpace toks hn h lead gaps)]
    exact tk_joinBlanks toks h lead 0 gaps

theorem joinSp_eq_joinBlanks : ∀ (toks : List Str), joinSp toks = joinBlanks 0 0 toks [] := by
  intro toks
  induction toks with
  | nil => rfl
  | cons t ts ih =>
    cases ts with
    | nil => simp [joinSp, joinBlanks]
    | cons t' ts' =>
      simp only [joinSp, joinBlanks, List.headD_nil, List.tail_nil, Nat.zero_add, List.replicate_zero, List.nil_append]
      rw [joinBlanks_succ 0 0 t' ts' [], ← ih]

/-- joining with single blanks is the special case the writer uses -/
theorem tokenizeLine_joinSp (toks : List Str) (h : ∀ t ∈ toks, IsToken t) : tokenizeLine (joinSp toks) = toks := by
  rw [joinSp_eq_joinBlanks]; exact tokenizeLine_joinBlanks toks h 0 0 []

/-- Splicing a whole block: the physical lines of any number of logical lines (none ending in a dash),
followed by one more line, splice back to the prefixed logical lines followed by that line. -/
theorem splice_wrap_block (ls : List Str) (h : ∀ l ∈ ls, endsWithChar (v30Prefix ++ l) '-' = false) (last : Str) :
    concatLinesWithDash ((ls.map addV30Line).flatten ++ [last]) = .ok (ls.map (v30Prefix ++ ·) ++ [last]) := by
  induction ls with
  | nil => simp [concatLinesWithDash]
  | cons l ls ih =>
    have ih' := ih (fun x hx => h x (by simp [hx]))
    simp only [List.map_cons, List.flatten_cons, List.append_assoc]
    rw [splice_wrap l _ (h l (by simp))]
    cases hrest : (ls.map addV30Line).flatten ++ [last] with
    | nil => simp at hrest
    | cons a r =>
      rw [hrest] at ih'
      simp only [expectedSplice, ih']
      rfl

/-- lines that are not continuation lines pass through the splicer unchanged -/
theorem splice_passthrough (pre : List Str) (h : ∀ l ∈ pre, (startsWith l v30Prefix && endsWithChar l '-') = false)
    (rest : List Str) (hr : rest ≠ []) :
    concatLinesWithDash (pre ++ rest) = (concatLinesWithDash rest).map (pre ++ ·) := by
  induction pre with
  | nil =>
    rw [List.nil_append]
    cases concatLinesWithDash rest <;> rfl
  | cons c pre ih =>
    have ih' := ih (fun x hx => h x (by simp [hx]))
    cases hpr : pre ++ rest with
    | nil => simp [hr] at hpr
    | cons n r =>
      rw [List.cons_append, hpr, concatLinesWithDash, h c (by simp)]
      rw [hpr] at ih'
      simp only [Bool.false_eq_true, if_false, ih']
      cases concatLinesWithDash rest <;> rfl

/-- the element table lookup used by the readers succeeds on every element symbol -/
theorem atomicNumberOf_elementSyms (s : Str) (h : s ∈ elementSyms) : ∃ z : Int, atomicNumberOf s = .ok z ∧ 1 ≤ z ∧ z ≤ 118 := by
  have key : elementSyms.all (fun s => match atomicNumberOf s with
      | .ok z => decide (1 ≤ z ∧ z ≤ 118) | _ => false) = true := by decide +kernel
  have := List.all_eq_true.1 key s h
  cases hz : atomicNumberOf s with
  | error e => simp [hz] at this
  | ok z =>
    simp only [hz, decide_eq_true_eq] at this
    exact ⟨z, rfl, this⟩

/-- **Writer atom line → reader.**  For a node whose symbol is an element symbol (not D or T), whose
coordinate tokens are blank-free float texts, the V3000 reader decodes the line the writer produces to
exactly the written data: symbol, atomic number, coordinates, and charge / radical / mass whenever they
are in the format's ranges (non-zero charge within ±15, radical 1–3, mass > 0) — and nothing else. -/
theorem atomLine_roundtrip (n : Node) (sym : Str) (hsym : n.attrs.sym = some sym) (hel : sym ∈ elementSyms)
    (hx : ∀ t ∈ [n.attrs.x.getD zeroCoord, n.attrs.y.getD zeroCoord, n.attrs.zc.getD zeroCoord],
      IsToken t ∧ pyFloatOk t = true)
    (hid : (natRepr (n.id + 1)).length ≤ intMaxStrDigits)
    (hchg : ∀ c, n.attrs.chg = some c → c ≠ 0 ∧ -15 ≤ c ∧ c ≤ 15)
    (hrad : ∀ r, n.attrs.rad = some r → 0 < r ∧ r ≤ 3)
    (hmass : ∀ m, n.attrs.mass = some m → 0 < m ∧ (intRepr m).length ≤ intMaxStrDigits) :
    ∃ line z, atomLine n = .ok line ∧ atomicNumberOf sym = .ok z ∧
      (tokenizeLine (v30Prefix ++ line))[2]? = some (natRepr (n.id + 1)) ∧
      parseAtomAttributesV3000 (tokenizeLine (v30Prefix ++ line)) =
        .ok (some { sym := some sym, z := some z, part := some 0,
                    x := some (n.attrs.x.getD zeroCoord), y := some (n.attrs.y.getD zeroCoord),
                    zc := some (n.attrs.zc.getD zeroCoord),
                    chg := n.attrs.chg, rad := n.attrs.rad, mass := n.attrs.mass }) := by
  sorry

end Tucan
