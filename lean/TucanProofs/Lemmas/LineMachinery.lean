import TucanProofs.Lemmas.Wrap
import TucanProofs.Lemmas.Tables
/-!
# S7 — line machinery shared by the molfile readers and the writer

* decimal text round trips: `int(str(n)) = n`;
* `line.rstrip().split(" ")` without empty pieces inverts joining blank-free tokens with blanks;
* splicing a whole block of wrapped logical lines restores all of them;
* the writer's atom and bond lines are decoded by the V3000 reader to what was written.
-/
namespace Tucan
namespace LineM

theorem isDigit_iff (c : Char) : isDigit c = true ↔ 48 ≤ c.toNat ∧ c.toNat ≤ 57 := by
  simp only [isDigit, Bool.and_eq_true, decide_eq_true_eq]
  exact Iff.rfl

/-- printable ASCII is never white space (the non-ASCII spaces of `isUniSpace` all lie above 127) -/
theorem not_space_of_gt {c : Char} (h : 32 < c.toNat) (h' : c.toNat < 128) : isPySpace c = false := by
  have h0 : c ≠ ' ' := by rintro rfl; revert h; decide
  have h1 : c ≠ '\t' := by rintro rfl; revert h; decide
  have h2 : c ≠ '\n' := by rintro rfl; revert h; decide
  have h3 : c ≠ '\r' := by rintro rfl; revert h; decide
  simp only [isPySpace, isUniSpace, Bool.or_eq_false_iff, beq_eq_false_iff_ne, ne_eq, Bool.and_eq_false_iff,
    decide_eq_false_iff_not]
  refine ⟨⟨⟨⟨⟨⟨⟨h0, h1⟩, h2⟩, h3⟩, ?_⟩, ?_⟩, ?_⟩, ⟨⟨⟨⟨⟨⟨⟨⟨?_, ?_⟩, ?_⟩, ?_⟩, ?_⟩, ?_⟩, ?_⟩, ?_⟩, ?_⟩⟩ <;> omega

theorem isDigit_not_space {c : Char} (h : isDigit c = true) : isPySpace c = false := by
  have := (isDigit_iff c).1 h
  exact not_space_of_gt (by omega) (by omega)

/-! ### what `int()` / `float()` see: `numText` on ASCII text -/

theorem foldChar_ascii {c : Char} (h : c.toNat < 128) : foldChar c = c := by simp [foldChar, h]

theorem not_cspace_of_gt {c : Char} (h : 32 < c.toNat) : isCSpace c = false := by
  have h0 : c ≠ ' ' := by rintro rfl; revert h; decide
  simp only [isCSpace, Bool.or_eq_false_iff, beq_eq_false_iff_ne, ne_eq, Bool.and_eq_false_iff,
    decide_eq_false_iff_not]
  exact ⟨h0, by omega⟩

theorem isDigit_ascii {c : Char} (h : isDigit c = true) : c.toNat < 128 := by
  have := (isDigit_iff c).1 h; omega

theorem isDigit_not_cspace {c : Char} (h : isDigit c = true) : isCSpace c = false :=
  not_cspace_of_gt (by have := (isDigit_iff c).1 h; omega)

theorem map_foldChar_of_ascii : ∀ (s : Str), (∀ c ∈ s, c.toNat < 128) → s.map foldChar = s
  | [], _ => rfl
  | c :: r, h => by
    rw [List.map_cons, foldChar_ascii (h c (by simp)), map_foldChar_of_ascii r (fun x hx => h x (by simp [hx]))]

theorem charIsDigit_isDigit {c : Char} (h : c.isDigit = true) : isDigit c = true := by
  rw [isDigit_iff]
  simp only [Char.isDigit, Bool.and_eq_true, decide_eq_true_eq, ge_iff_le, UInt32.le_iff_toNat_le] at h
  exact h

theorem natRepr_eq (n : Nat) : natRepr n = Nat.toDigits 10 n := by simp [natRepr]

theorem natOfDigits_eq (ds : List Char) : natOfDigits ds = Nat.ofDigitChars 10 ds 0 := by
  simp only [natOfDigits, Nat.ofDigitChars, digitVal]
  congr 1
  funext a c
  rw [Nat.mul_comm]

theorem natOfDigits_natRepr (n : Nat) : natOfDigits (natRepr n) = n := by
  rw [natOfDigits_eq, natRepr_eq]; exact Nat.ofDigitChars_ten_toDigits

theorem toDigits_head (n : Nat) : n ≠ 0 → (Nat.toDigits 10 n).head? ≠ some '0' := by
  induction n using Nat.strongRecOn with
  | _ n ih =>
    intro hn
    rw [Nat.toDigits_eq_if (by decide)]
    split
    · simp [hn]
    · have hne : Nat.toDigits 10 (n / 10) ≠ [] := Nat.toDigits_ne_nil
      have := ih (n / 10) (by omega) (by omega)
      cases hd : Nat.toDigits 10 (n / 10) with
      | nil => exact absurd hd hne
      | cons a r => rw [hd] at this; simpa using this

theorem dropWhile_of_all {p : Char → Bool} : ∀ (t : Str), (∀ c ∈ t, p c = false) → t.dropWhile p = t := by
  intro t h
  cases t with
  | nil => rfl
  | cons c r => simp [List.dropWhile, h c (by simp)]

theorem dropWhileEnd_of_all {p : Char → Bool} (t : Str) (h : ∀ c ∈ t, p c = false) : dropWhileEnd p t = t := by
  unfold dropWhileEnd
  rw [dropWhile_of_all t.reverse (fun c hc => h c (List.mem_reverse.1 hc)), List.reverse_reverse]

theorem strip_of_all (t : Str) (h : ∀ c ∈ t, isPySpace c = false) : strip t = t := by
  unfold strip
  rw [dropWhile_of_all t h, dropWhileEnd_of_all t h]

/-- ASCII text without C white space is what `int()` / `float()` parse, unchanged -/
theorem numText_of_all (t : Str) (ha : ∀ c ∈ t, c.toNat < 128) (h : ∀ c ∈ t, isCSpace c = false) :
    numText t = t := by
  unfold numText
  simp only [map_foldChar_of_ascii t ha]
  rw [dropWhile_of_all t h, dropWhileEnd_of_all t h]

theorem numText_replicate_append (k : Nat) (t : Str) : numText (List.replicate k ' ' ++ t) = numText t := by
  have hf : foldChar ' ' = ' ' := foldChar_ascii (by decide)
  have hd : ∀ (k : Nat) (u : Str), (List.replicate k ' ' ++ u).dropWhile isCSpace = u.dropWhile isCSpace := by
    intro k u
    induction k with
    | zero => simp
    | succ k ih =>
      have : isCSpace ' ' = true := by decide
      simp only [List.replicate_succ, List.cons_append, List.dropWhile, this, ih]
  unfold numText
  simp only [List.map_append, List.map_replicate, hf, hd]

theorem dropWhileEnd_cons_keep {p : Char → Bool} {c : Char} (hc : p c = false) (r : Str) :
    dropWhileEnd p (c :: r) = c :: dropWhileEnd p r := by
  have key : ∀ l : List Char, (l ++ [c]).dropWhile p = l.dropWhile p ++ [c] := by
    intro l
    induction l with
    | nil => simp [List.dropWhile, hc]
    | cons a l ih =>
      by_cases ha : p a = true
      · simp [List.dropWhile, ha, ih]
      · simp [List.dropWhile, ha]
  simp [dropWhileEnd, key]

/-- a text that starts with an ASCII character other than C white space keeps that start -/
theorem numText_cons {c : Char} (ha : c.toNat < 128) (hc : isCSpace c = false) (r : Str) :
    numText (c :: r) = c :: dropWhileEnd isCSpace (r.map foldChar) := by
  unfold numText
  simp only [List.map_cons, foldChar_ascii ha, List.dropWhile, hc]
  exact dropWhileEnd_cons_keep hc _

theorem digitsGo_one : ∀ (ds : Str), (∀ c ∈ ds, isDigit c = true) → digitsGo 1 ds = some ds := by
  intro ds
  induction ds with
  | nil => intro _; rfl
  | cons c r ih =>
    intro h
    simp only [digitsGo, h c (by simp), if_true, ih (fun x hx => h x (by simp [hx])), Option.map_some]

theorem digitsWithUnderscores_digits (ds : Str) (hne : ds ≠ []) (h : ∀ c ∈ ds, isDigit c = true) :
    digitsWithUnderscores ds = some ds := by
  cases ds with
  | nil => exact absurd rfl hne
  | cons c r =>
    simp only [digitsWithUnderscores, digitsGo, h c (by simp), if_true,
      digitsGo_one r (fun x hx => h x (by simp [hx])), Option.map_some]

theorem pyInt_digits (ds : Str) (hne : ds ≠ []) (h : ∀ c ∈ ds, isDigit c = true)
    (hlen : ds.length ≤ intMaxStrDigits) : pyInt ds = .ok (natOfDigits ds : Int) := by
  have hstrip : numText ds = ds :=
    numText_of_all ds (fun c hc => isDigit_ascii (h c hc)) (fun c hc => isDigit_not_cspace (h c hc))
  have hmatch : pyInt.match_1 (fun _ => Bool × List Char) ds
      (fun r => (true, r)) (fun r => (false, r)) (fun r => (false, r)) = (false, ds) := by
    split
    · exact absurd (h '-' (by simp)) (by decide)
    · exact absurd (h '+' (by simp)) (by decide)
    · rfl
  unfold pyInt
  simp only [hstrip, hmatch, digitsWithUnderscores_digits ds hne h]
  rw [if_neg (by omega)]
  simp

theorem pyInt_neg_digits (ds : Str) (hne : ds ≠ []) (h : ∀ c ∈ ds, isDigit c = true)
    (hlen : ds.length ≤ intMaxStrDigits) : pyInt ('-' :: ds) = .ok (-(natOfDigits ds : Int)) := by
  have hstrip : numText ('-' :: ds) = '-' :: ds := numText_of_all _ (by
    intro c hc
    rcases List.mem_cons.1 hc with rfl | hc
    · decide
    · exact isDigit_ascii (h c hc)) (by
    intro c hc
    rcases List.mem_cons.1 hc with rfl | hc
    · decide
    · exact isDigit_not_cspace (h c hc))
  unfold pyInt
  simp only [hstrip, digitsWithUnderscores_digits ds hne h]
  rw [if_neg (by omega)]
  simp

theorem natRepr_shape' (n : Nat) :
    natRepr n ≠ [] ∧ (∀ c ∈ natRepr n, isDigit c = true) ∧ (n ≠ 0 → (natRepr n).head? ≠ some '0') := by
  rw [natRepr_eq]
  exact ⟨Nat.toDigits_ne_nil, fun c hc => charIsDigit_isDigit (Nat.isDigit_of_mem_toDigits (by decide) (by decide) hc),
    toDigits_head n⟩

end LineM
open LineM

/-- `int(str(n)) = n` (for texts within CPython's digit limit) -/
theorem pyInt_natRepr (n : Nat) (h : (natRepr n).length ≤ intMaxStrDigits) : pyInt (natRepr n) = .ok (n : Int) := by
  obtain ⟨h1, h2, _⟩ := natRepr_shape' n
  rw [pyInt_digits _ h1 h2 h, natOfDigits_natRepr]

theorem pyInt_intRepr (i : Int) (h : (intRepr i).length ≤ intMaxStrDigits) : pyInt (intRepr i) = .ok i := by
  cases i with
  | ofNat n => exact pyInt_natRepr n h
  | negSucc n =>
    obtain ⟨h1, h2, _⟩ := natRepr_shape' (n + 1)
    simp only [intRepr, List.length_cons] at h ⊢
    rw [pyInt_neg_digits _ h1 h2 (by omega), natOfDigits_natRepr]
    rfl

/-- the decimal text of a natural number: non-empty, digits only, no leading zero unless it is "0" -/
theorem natRepr_shape (n : Nat) :
    natRepr n ≠ [] ∧ (∀ c ∈ natRepr n, isDigit c = true) ∧ (n ≠ 0 → (natRepr n).head? ≠ some '0') :=
  natRepr_shape' n

/-- a token: non-empty and free of white space -/
def IsToken (t : Str) : Prop := t ≠ [] ∧ ∀ c ∈ t, isPySpace c = false

/-- tokens joined by runs of at least one blank each (`gaps[i] ≥ 1` blanks before token `i+1`), with
optional leading and trailing blanks -/
def joinBlanks (lead : Nat) (trail : Nat) : List Str → List Nat → Str
  | [], _ => List.replicate (lead + trail) ' '
  | [t], _ => List.replicate lead ' ' ++ t ++ List.replicate trail ' '
  | t :: ts, gaps =>
    List.replicate lead ' ' ++ t ++ joinBlanks ((gaps.headD 0) + 1) trail ts gaps.tail

namespace LineM

/-- split on blanks and drop the empty pieces -/
def tk (s : Str) : List Str := (splitOnChar ' ' s).filter (· != [])

theorem isToken_no_blank {t : Str} (h : IsToken t) : ' ' ∉ t := fun hm => by
  have := h.2 ' ' hm; revert this; decide

theorem split_tok_append (t : Str) (h : ' ' ∉ t) (rest : Str) :
    splitOnChar ' ' (t ++ ' ' :: rest) = t :: splitOnChar ' ' rest := by
  induction t with
  | nil => simp [splitOnChar]
  | cons c r ih =>
    have hc : (c == ' ') = false := by
      simp only [beq_eq_false_iff_ne, ne_eq]; rintro rfl; exact h (by simp)
    have := ih (fun hm => h (by simp [hm]))
    simp only [List.cons_append, splitOnChar, hc, Bool.false_eq_true, if_false, this]

theorem split_tok (t : Str) (h : ' ' ∉ t) : splitOnChar ' ' t = [t] := by
  induction t with
  | nil => simp [splitOnChar]
  | cons c r ih =>
    have hc : (c == ' ') = false := by
      simp only [beq_eq_false_iff_ne, ne_eq]; rintro rfl; exact h (by simp)
    have := ih (fun hm => h (by simp [hm]))
    simp only [splitOnChar, hc, Bool.false_eq_true, if_false, this]

theorem tk_nil : tk [] = [] := by simp [tk, splitOnChar]

theorem tk_blank (s : Str) : tk (' ' :: s) = tk s := by simp [tk, splitOnChar]

theorem tk_replicate (k : Nat) (s : Str) : tk (List.replicate k ' ' ++ s) = tk s := by
  induction k with
  | zero => simp
  | succ k ih => rw [List.replicate_succ, List.cons_append, tk_blank, ih]

theorem tk_tok_blank {t : Str} (ht : IsToken t) (rest : Str) : tk (t ++ ' ' :: rest) = t :: tk rest := by
  simp only [tk, split_tok_append t (isToken_no_blank ht), List.filter_cons]
  have : (t != []) = true := by simpa using ht.1
  simp [this]

theorem tk_tok {t : Str} (ht : IsToken t) : tk t = [t] := by
  simp only [tk, split_tok t (isToken_no_blank ht), List.filter_cons]
  have : (t != []) = true := by simpa using ht.1
  simp [this]

theorem tk_tok_replicate {t : Str} (ht : IsToken t) (k : Nat) : tk (t ++ List.replicate k ' ') = [t] := by
  cases k with
  | zero => simpa using tk_tok ht
  | succ k =>
    rw [List.replicate_succ, tk_tok_blank ht]
    have := tk_replicate k []
    rw [List.append_nil] at this
    rw [this, tk_nil]

theorem joinBlanks_succ (lead trail : Nat) (t : Str) (ts : List Str) (gaps : List Nat) :
    joinBlanks (lead + 1) trail (t :: ts) gaps = ' ' :: joinBlanks lead trail (t :: ts) gaps := by
  cases ts with
  | nil => simp [joinBlanks, List.replicate_succ]
  | cons t' ts' => simp [joinBlanks, List.replicate_succ]

theorem tk_joinBlanks : ∀ (toks : List Str), (∀ t ∈ toks, IsToken t) → ∀ (lead trail : Nat) (gaps : List Nat),
    tk (joinBlanks lead trail toks gaps) = toks := by
  intro toks
  induction toks with
  | nil =>
    intro _ lead trail gaps
    have := tk_replicate (lead + trail) []
    rw [List.append_nil] at this
    simp only [joinBlanks, this, tk_nil]
  | cons t ts ih =>
    intro h lead trail gaps
    have ht : IsToken t := h t (by simp)
    cases ts with
    | nil =>
      simp only [joinBlanks, List.append_assoc, tk_replicate, tk_tok_replicate ht]
    | cons t' ts' =>
      have := ih (fun x hx => h x (by simp [hx])) (gaps.headD 0) trail gaps.tail
      simp only [joinBlanks, joinBlanks_succ] at this ⊢
      simp only [List.append_assoc, tk_replicate, tk_tok_blank ht, this]

/-- the text ends in a character that is not white space -/
def EndsNonSpace (x : Str) : Prop := ∃ y c, x = y ++ [c] ∧ isPySpace c = false

theorem EndsNonSpace.append_left {x : Str} (a : Str) (h : EndsNonSpace x) : EndsNonSpace (a ++ x) := by
  obtain ⟨y, c, rfl, hc⟩ := h
  exact ⟨a ++ y, c, by simp, hc⟩

theorem isToken_endsNonSpace {t : Str} (h : IsToken t) : EndsNonSpace t :=
  ⟨t.dropLast, t.getLast h.1, (List.dropLast_concat_getLast h.1).symm, h.2 _ (List.getLast_mem h.1)⟩

theorem dropWhile_replicate_blank (k : Nat) (c : Char) (z : Str) (hc : isPySpace c = false) :
    (List.replicate k ' ' ++ c :: z).dropWhile isPySpace = c :: z := by
  induction k with
  | zero => simp [hc]
  | succ k ih =>
    have : isPySpace ' ' = true := by decide
    simp only [List.replicate_succ, List.cons_append, List.dropWhile, this, ih]

theorem rstrip_endsNonSpace {x : Str} (h : EndsNonSpace x) (k : Nat) : rstrip (x ++ List.replicate k ' ') = x := by
  obtain ⟨y, c, rfl, hc⟩ := h
  simp only [rstrip, dropWhileEnd, List.reverse_append, List.reverse_replicate, List.reverse_cons,
    List.singleton_append, List.append_assoc]
  rw [dropWhile_replicate_blank k c _ hc]
  simp

theorem rstrip_replicate (k : Nat) : rstrip (List.replicate k ' ') = [] := by
  simp only [rstrip, dropWhileEnd, List.reverse_replicate]
  have : ∀ k, (List.replicate k ' ').dropWhile isPySpace = [] := by
    intro k
    induction k with
    | zero => rfl
    | succ k ih =>
      have : isPySpace ' ' = true := by decide
      simp only [List.replicate_succ, List.dropWhile, this, ih]
  rw [this]; rfl

theorem joinBlanks_trail : ∀ (toks : List Str) (lead trail : Nat) (gaps : List Nat),
    joinBlanks lead trail toks gaps = joinBlanks lead 0 toks gaps ++ List.replicate trail ' ' := by
  intro toks
  induction toks with
  | nil => intro lead trail gaps; simp [joinBlanks]
  | cons t ts ih =>
    intro lead trail gaps
    cases ts with
    | nil => simp [joinBlanks]
    | cons t' ts' =>
      have := ih (gaps.headD 0 + 1) trail gaps.tail
      simp only [joinBlanks] at this ⊢
      rw [this]; simp

theorem joinBlanks_endsNonSpace : ∀ (toks : List Str), toks ≠ [] → (∀ t ∈ toks, IsToken t) →
    ∀ (lead : Nat) (gaps : List Nat), EndsNonSpace (joinBlanks lead 0 toks gaps) := by
  intro toks
  induction toks with
  | nil => intro h; exact absurd rfl h
  | cons t ts ih =>
    intro _ h lead gaps
    have ht : IsToken t := h t (by simp)
    cases ts with
    | nil =>
      simp only [joinBlanks, List.replicate_zero, List.append_nil]
      exact (isToken_endsNonSpace ht).append_left _
    | cons t' ts' =>
      have := ih (by simp) (fun x hx => h x (by simp [hx])) (gaps.headD 0 + 1) gaps.tail
      simp only [joinBlanks] at this ⊢
      exact this.append_left _

end LineM
open LineM

/-- the reader's tokenizer inverts joining tokens with arbitrary runs of blanks -/
theorem tokenizeLine_joinBlanks (toks : List Str) (h : ∀ t ∈ toks, IsToken t) (lead trail : Nat) (gaps : List Nat) :
    tokenizeLine (joinBlanks lead trail toks gaps) = toks := by
  show tk (rstrip (joinBlanks lead trail toks gaps)) = toks
  by_cases hn : toks = []
  · subst hn
    simp only [joinBlanks, rstrip_replicate, tk_nil]
  · rw [joinBlanks_trail, rstrip_endsNonSpace (joinBlanks_endsNonSpace toks hn h lead gaps)]
    exact tk_joinBlanks toks h lead 0 gaps

theorem joinSp_eq_joinBlanks : ∀ (toks : List Str), joinSp toks = joinBlanks 0 0 toks [] := by
  intro toks
  induction toks with
  | nil => rfl
  | cons t ts ih =>
    cases ts with
    | nil => simp [joinSp, joinBlanks]
    | cons t' ts' =>
      simp only [joinSp, joinBlanks, List.headD_nil, List.tail_nil, Nat.zero_add, List.replicate_zero, List.nil_append]
      rw [joinBlanks_succ 0 0 t' ts' [], ← ih]

/-- joining with single blanks is the special case the writer uses -/
theorem tokenizeLine_joinSp (toks : List Str) (h : ∀ t ∈ toks, IsToken t) : tokenizeLine (joinSp toks) = toks := by
  rw [joinSp_eq_joinBlanks]; exact tokenizeLine_joinBlanks toks h 0 0 []

/-- Splicing a whole block: the physical lines of any number of logical lines (none ending in a dash),
followed by one more line, splice back to the prefixed logical lines followed by that line. -/
theorem splice_wrap_block (ls : List Str) (h : ∀ l ∈ ls, endsWithChar (v30Prefix ++ l) '-' = false) (last : Str) :
    concatLinesWithDash ((ls.map addV30Line).flatten ++ [last]) = .ok (ls.map (v30Prefix ++ ·) ++ [last]) := by
  induction ls with
  | nil => simp [concatLinesWithDash]
  | cons l ls ih =>
    have ih' := ih (fun x hx => h x (by simp [hx]))
    simp only [List.map_cons, List.flatten_cons, List.append_assoc]
    rw [splice_wrap l _ (h l (by simp))]
    cases hrest : (ls.map addV30Line).flatten ++ [last] with
    | nil => simp at hrest
    | cons a r =>
      rw [hrest] at ih'
      simp only [expectedSplice, ih']
      rfl

/-- lines that are not continuation lines pass through the splicer unchanged -/
theorem splice_passthrough (pre : List Str) (h : ∀ l ∈ pre, (startsWith l v30Prefix && endsWithChar l '-') = false)
    (rest : List Str) (hr : rest ≠ []) :
    concatLinesWithDash (pre ++ rest) = (concatLinesWithDash rest).map (pre ++ ·) := by
  induction pre with
  | nil =>
    rw [List.nil_append]
    cases concatLinesWithDash rest <;> rfl
  | cons c pre ih =>
    have ih' := ih (fun x hx => h x (by simp [hx]))
    cases hpr : pre ++ rest with
    | nil => simp [hr] at hpr
    | cons n r =>
      rw [List.cons_append, hpr, concatLinesWithDash, h c (by simp)]
      rw [hpr] at ih'
      simp only [Bool.false_eq_true, if_false, ih']
      cases concatLinesWithDash rest <;> rfl

/-- the element table lookup used by the readers succeeds on every element symbol -/
theorem atomicNumberOf_elementSyms (s : Str) (h : s ∈ elementSyms) : ∃ z : Int, atomicNumberOf s = .ok z ∧ 1 ≤ z ∧ z ≤ 118 := by
  have key : elementSyms.all (fun s => match atomicNumberOf s with
      | .ok z => decide (1 ≤ z ∧ z ≤ 118) | _ => false) = true := by decide +kernel
  have := List.all_eq_true.1 key s h
  cases hz : atomicNumberOf s with
  | error e => simp [hz] at this
  | ok z =>
    simp only [hz, decide_eq_true_eq] at this
    exact ⟨z, rfl, this⟩

/-! ## the writer's atom line, read back -/

namespace LineM


theorem pyFloatOk_head_false (r : Str) (c : Char) (hc : c = 'C' ∨ c = 'M' ∨ c = 'R')
    (htok : ∀ x ∈ c :: r, isPySpace x = false) : pyFloatOk (c :: r) = false := by
  unfold pyFloatOk
  rcases hc with rfl | rfl | rfl <;> rw [numText_cons (by decide) (by decide)]
  · have : Char.toLower 'C' = 'c' := by decide
    simp [this, List.span, List.span.loop, isDigit]
  · have : Char.toLower 'M' = 'm' := by decide
    simp [this, List.span, List.span.loop, isDigit]
  · have : Char.toLower 'R' = 'r' := by decide
    simp [this, List.span, List.span.loop, isDigit]

theorem split_sep_append (sep : Char) (t : Str) (h : sep ∉ t) (rest : Str) :
    splitOnChar sep (t ++ sep :: rest) = t :: splitOnChar sep rest := by
  induction t with
  | nil => simp [splitOnChar]
  | cons c r ih =>
    have hc : (c == sep) = false := by
      simp only [beq_eq_false_iff_ne, ne_eq]; rintro rfl; exact h (by simp)
    have := ih (fun hm => h (by simp [hm]))
    simp only [List.cons_append, splitOnChar, hc, Bool.false_eq_true, if_false, this]

theorem split_sep_none (sep : Char) (t : Str) (h : sep ∉ t) : splitOnChar sep t = [t] := by
  induction t with
  | nil => simp [splitOnChar]
  | cons c r ih =>
    have hc : (c == sep) = false := by
      simp only [beq_eq_false_iff_ne, ne_eq]; rintro rfl; exact h (by simp)
    have := ih (fun hm => h (by simp [hm]))
    simp only [splitOnChar, hc, Bool.false_eq_true, if_false, this]

/-- the text before the first `=` starts with the first character of the text -/
theorem headPiece_ne (tok : Str) (k : Char) (ks : Str) (h : tok.head? ≠ some k) :
    (splitOnChar '=' tok).head? ≠ some (k :: ks) := by
  cases tok with
  | nil => simp [splitOnChar]
  | cons c r =>
    simp only [splitOnChar]
    split
    · simp
    · cases splitOnChar '=' r with
      | nil => simp only [List.head?_cons, ne_eq, Option.some.injEq, List.cons.injEq, not_and]
               intro hck; exact absurd (by simp [hck]) h
      | cons p ps =>
        simp only [List.head?_cons, ne_eq, Option.some.injEq, List.cons.injEq, not_and]
        intro hck; exact absurd (by simp [hck]) h

theorem ok_bind {α β} (a : α) (f : α → PyM β) : ((Except.ok a : PyM α) >>= f) = f a := rfl

/-- the fold inside `keywordValues`, from an arbitrary accumulator -/
def kvFrom (key : Str) (acc : List Int) (line : List Str) : PyM (List Int) :=
  line.foldlM (fun acc tok =>
    if (splitOnChar '=' tok).head? == some key then do
      let v ← afterEq tok
      let i ← pyInt v
      pure (acc ++ [i])
    else pure acc) acc

theorem keywordValues_eq (key : Str) (line : List Str) : keywordValues key line = kvFrom key [] line := rfl

/-- the token is not a `key=…` token -/
def Miss (key : Str) (tok : Str) : Prop := (splitOnChar '=' tok).head? ≠ some key

theorem kvFrom_miss (key : Str) : ∀ (line : List Str) (acc : List Int), (∀ t ∈ line, Miss key t) →
    kvFrom key acc line = .ok acc := by
  intro line
  induction line with
  | nil => intro acc _; rfl
  | cons t ts ih =>
    intro acc h
    have ht : ((splitOnChar '=' t).head? == some key) = false := by
      simpa [Miss] using h t (by simp)
    have := ih acc (fun x hx => h x (by simp [hx]))
    simp only [kvFrom, List.foldlM_cons, ht, Bool.false_eq_true, if_false, pure_bind] at this ⊢
    exact this

theorem kvFrom_append (key : Str) (a b : List Str) (acc : List Int) :
    kvFrom key acc (a ++ b) = kvFrom key acc a >>= fun acc' => kvFrom key acc' b := by
  simp only [kvFrom, List.foldlM_append]

theorem kvFrom_hit (key : Str) (v : Int) (acc : List Int) (hk : '=' ∉ key)
    (hv : '=' ∉ intRepr v) (hlen : (intRepr v).length ≤ intMaxStrDigits) :
    kvFrom key acc [key ++ '=' :: intRepr v] = .ok (acc ++ [v]) := by
  have hs : splitOnChar '=' (key ++ '=' :: intRepr v) = [key, intRepr v] := by
    rw [split_sep_append '=' key hk, split_sep_none '=' _ hv]
  simp only [kvFrom, List.foldlM_cons, List.foldlM_nil, hs, List.head?_cons, beq_self_eq_true, if_true, afterEq,
    getIdx, List.getElem?_cons_succ, List.getElem?_cons_zero, ok_bind, pyInt_intRepr v hlen]
  rfl


def sufx (ts : List Str) : Str := (ts.map (' ' :: ·)).flatten

theorem sufx_nil : sufx [] = [] := rfl
theorem sufx_cons (t : Str) (ts : List Str) : sufx (t :: ts) = ' ' :: t ++ sufx ts := by simp [sufx]
theorem sufx_append (a b : List Str) : sufx (a ++ b) = sufx a ++ sufx b := by simp [sufx]

theorem joinSp_cons : ∀ (ts : List Str) (t : Str), joinSp (t :: ts) = t ++ sufx ts := by
  intro ts
  induction ts with
  | nil => intro t; simp [joinSp, sufx]
  | cons t' ts ih =>
    intro t
    show t ++ ' ' :: joinSp (t' :: ts) = _
    rw [ih t', sufx_cons]; simp

theorem isToken_M : IsToken (cs "M") := by
  refine ⟨by simp [cs], ?_⟩
  simp only [cs, String.toList]; decide

theorem isToken_V30 : IsToken (cs "V30") := by
  refine ⟨by simp [cs], ?_⟩
  simp only [cs]; decide

theorem tokenizeLine_v30 (toks : List Str) (hne : toks ≠ []) (h : ∀ t ∈ toks, IsToken t) :
    tokenizeLine (v30Prefix ++ joinSp toks) = cs "M" :: cs "V30" :: toks := by
  have e : v30Prefix ++ joinSp toks = joinBlanks 0 0 (cs "M" :: cs "V30" :: toks) [1] := by
    cases toks with
    | nil => exact absurd rfl hne
    | cons t ts =>
      simp only [joinBlanks, List.headD_cons, List.tail_cons, List.replicate_zero, List.nil_append]
      simp only [List.headD_nil, List.tail_nil]
      rw [joinBlanks_succ 0 0 t ts [], ← joinSp_eq_joinBlanks]
      simp [v30Prefix, cs, List.replicate]
  rw [e]
  apply tokenizeLine_joinBlanks
  intro t ht
  rcases List.mem_cons.1 ht with rfl | ht
  · exact isToken_M
  rcases List.mem_cons.1 ht with rfl | ht
  · exact isToken_V30
  · exact h t ht


theorem cs_CHG : cs "CHG" = ['C', 'H', 'G'] := by simp [cs]
theorem cs_MASS : cs "MASS" = ['M', 'A', 'S', 'S'] := by simp [cs]
theorem cs_RAD : cs "RAD" = ['R', 'A', 'D'] := by simp [cs]

/-- one of the three keywords the atom-line reader scans for -/
def KeyC (key : Str) : Prop := key = cs "CHG" ∨ key = cs "MASS" ∨ key = cs "RAD"

theorem keyC_chars {key : Str} (hk : KeyC key) : ∀ c ∈ key, isPySpace c = false ∧ c ≠ '=' := by
  rcases hk with rfl | rfl | rfl
  · rw [cs_CHG]; decide
  · rw [cs_MASS]; decide
  · rw [cs_RAD]; decide

theorem miss_of_head {key : Str} (hk : KeyC key) (tok : Str)
    (h : tok.head? ≠ some 'C' ∧ tok.head? ≠ some 'M' ∧ tok.head? ≠ some 'R') : Miss key tok := by
  rcases hk with rfl | rfl | rfl
  · rw [cs_CHG]; exact headPiece_ne tok _ _ h.1
  · rw [cs_MASS]; exact headPiece_ne tok _ _ h.2.1
  · rw [cs_RAD]; exact headPiece_ne tok _ _ h.2.2

theorem miss_M {key : Str} (hk : KeyC key) : Miss key (cs "M") := by
  have : splitOnChar '=' (cs "M") = [['M']] := by simp [cs, splitOnChar]
  rcases hk with rfl | rfl | rfl
  · rw [cs_CHG, Miss, this]; decide
  · rw [cs_MASS, Miss, this]; decide
  · rw [cs_RAD, Miss, this]; decide

theorem intRepr_chars (v : Int) : ∀ c ∈ intRepr v, isDigit c = true ∨ c = '-' := by
  intro c hc
  cases v with
  | ofNat n => exact Or.inl ((natRepr_shape' n).2.1 c hc)
  | negSucc n =>
    rcases List.mem_cons.1 hc with rfl | hc
    · exact Or.inr rfl
    · exact Or.inl ((natRepr_shape' (n + 1)).2.1 c hc)

theorem intRepr_no_space (v : Int) : ∀ c ∈ intRepr v, isPySpace c = false := by
  intro c hc
  rcases intRepr_chars v c hc with h | rfl
  · exact isDigit_not_space h
  · decide

theorem intRepr_no_eq (v : Int) : '=' ∉ intRepr v := by
  intro hc
  rcases intRepr_chars v _ hc with h | h
  · revert h; decide
  · revert h; decide

/-- the optional `KEY=value` token of an atom line -/
def optTok (key : Str) (o : Option Int) : List Str :=
  match o with
  | some v => [key ++ '=' :: intRepr v]
  | none => []

theorem optTok_isToken {key : Str} (hk : KeyC key) (o : Option Int) : ∀ t ∈ optTok key o, IsToken t := by
  cases o with
  | none => intro t ht; cases ht
  | some v =>
    intro t ht
    simp only [optTok, List.mem_singleton] at ht
    subst ht
    refine ⟨by simp, ?_⟩
    intro c hc
    rcases List.mem_append.1 hc with h | h
    · exact (keyC_chars hk c h).1
    · rcases List.mem_cons.1 h with rfl | h
      · decide
      · exact intRepr_no_space v c h

theorem optTok_miss {key key' : Str} (hk : KeyC key) (hk' : KeyC key') (hne : key.head? ≠ key'.head?)
    (o : Option Int) : ∀ t ∈ optTok key' o, Miss key t := by
  cases o with
  | none => intro t ht; cases ht
  | some v =>
    intro t ht
    simp only [optTok, List.mem_singleton] at ht
    subst ht
    rcases hk with rfl | rfl | rfl <;> rcases hk' with rfl | rfl | rfl <;>
      first
      | exact absurd rfl hne
      | (simp only [cs_CHG, cs_MASS, cs_RAD]; exact headPiece_ne _ _ _ (by simp))

theorem kvFrom_optTok_other {key key' : Str} (hk : KeyC key) (hk' : KeyC key') (hne : key.head? ≠ key'.head?)
    (o : Option Int) (acc : List Int) : kvFrom key acc (optTok key' o) = .ok acc :=
  kvFrom_miss key _ acc (optTok_miss hk hk' hne o)

theorem kvFrom_optTok_same {key : Str} (hk : KeyC key) (o : Option Int) (acc : List Int)
    (hlen : ∀ v, o = some v → (intRepr v).length ≤ intMaxStrDigits) :
    kvFrom key acc (optTok key o) = .ok (acc ++ o.toList) := by
  cases o with
  | none => simp [optTok, kvFrom]; rfl
  | some v =>
    have := kvFrom_hit key v acc (fun h => (keyC_chars hk _ h).2 rfl) (intRepr_no_eq v) (hlen v rfl)
    simpa [optTok] using this

theorem lastNonZero_toList (o : Option Int) (h : ∀ v, o = some v → v ≠ 0) : lastNonZero o.toList = o := by
  cases o with
  | none => rfl
  | some v =>
    have := h v rfl
    simp [lastNonZero, this]

/-- element symbols: blank-free, not `*`, `D` or `T`, and never the text before `=` of a keyword token -/
def symOk (s : Str) : Bool :=
  s != [] && s.all (fun c => !isPySpace c) && s != ['*'] && s != ['D'] && s != ['T'] &&
  (splitOnChar '=' s).head? != some ['C', 'H', 'G'] &&
  (splitOnChar '=' s).head? != some ['M', 'A', 'S', 'S'] &&
  (splitOnChar '=' s).head? != some ['R', 'A', 'D']

theorem elementSyms_symOk : elementSyms.all symOk = true := by decide +kernel

theorem float_head {t : Str} (ht : IsToken t) (hf : pyFloatOk t = true) :
    t.head? ≠ some 'C' ∧ t.head? ≠ some 'M' ∧ t.head? ≠ some 'R' := by
  cases t with
  | nil => simp
  | cons c r =>
    have key : ∀ k, (k = 'C' ∨ k = 'M' ∨ k = 'R') → (c :: r).head? ≠ some k := by
      intro k hk h
      simp only [List.head?_cons, Option.some.injEq] at h
      subst h
      rw [pyFloatOk_head_false r c hk ht.2] at hf
      cases hf
    exact ⟨key _ (Or.inl rfl), key _ (Or.inr (Or.inl rfl)), key _ (Or.inr (Or.inr rfl))⟩


theorem parse_eval (L : List Str) (sym X Y Z : Str) (z : Int) (chg mass rad : List Int)
    (h3 : getIdx L 3 = .ok sym) (hstar : (sym == ['*']) = false)
    (hdet : detectHydrogenIsotopes sym = (sym, 0)) (hz : atomicNumberOf sym = .ok z)
    (h4 : getIdx L 4 = .ok X) (h5 : getIdx L 5 = .ok Y) (h6 : getIdx L 6 = .ok Z)
    (hX : pyFloat X = .ok X) (hY : pyFloat Y = .ok Y) (hZ : pyFloat Z = .ok Z)
    (hc : keywordValues (cs "CHG") L = .ok chg) (hm : keywordValues (cs "MASS") L = .ok mass)
    (hr : keywordValues (cs "RAD") L = .ok rad) :
    parseAtomAttributesV3000 L = .ok (some { sym := some sym, z := some z, part := some 0, x := some X, y := some Y, zc := some Z, chg := lastNonZero chg, mass := lastNonZero mass, rad := lastNonZero rad }) := by
  unfold parseAtomAttributesV3000
  simp only [h3, ok_bind, hstar, Bool.false_eq_true, if_false, hdet, hz, h4, h5, h6, hX, hY, hZ, hc, hm, hr,
    beq_self_eq_true, if_true]
  rfl


theorem intRepr_small_len (c : Int) (h1 : -99 ≤ c) (h2 : c ≤ 99) : (intRepr c).length ≤ intMaxStrDigits := by
  have hn : ∀ n : Nat, n < 100 → (natRepr n).length ≤ 2 := by
    intro n hn
    rw [LineM.natRepr_eq, Nat.length_toDigits_le_iff (by decide) (by decide)]
    exact hn
  cases c with
  | ofNat n =>
    have h2' : (n : Int) ≤ 99 := h2
    have := hn n (by omega)
    simp only [intRepr, intMaxStrDigits]; show (natRepr n).length ≤ 4300; omega
  | negSucc n =>
    have h1' : -99 ≤ -((n : Int) + 1) := by rw [← Int.negSucc_eq]; exact h1
    have := hn (n + 1) (by omega)
    simp only [intRepr, List.length_cons, intMaxStrDigits]; omega

theorem atomLine_eq (n : Node) (sym : Str) (hsym : n.attrs.sym = some sym)
    (hchg : ∀ c, n.attrs.chg = some c → c ≠ 0 ∧ -15 ≤ c ∧ c ≤ 15)
    (hrad : ∀ r, n.attrs.rad = some r → 0 < r ∧ r ≤ 3)
    (hmass : ∀ m, n.attrs.mass = some m → 0 < m) :
    atomLine n = .ok (joinSp ([natRepr (n.id + 1), sym, n.attrs.x.getD zeroCoord, n.attrs.y.getD zeroCoord,
      n.attrs.zc.getD zeroCoord, ['0']] ++ optTok (cs "CHG") n.attrs.chg ++ optTok (cs "RAD") n.attrs.rad
      ++ optTok (cs "MASS") n.attrs.mass)) := by
  have h1 : ∀ c, n.attrs.chg = some c → (c != 0 && decide (-15 ≤ c) && decide (c ≤ 15)) = true := by
    intro c hc; obtain ⟨h0, h1, h2⟩ := hchg c hc; simp [h0, h1, h2]
  have h2 : ∀ r, n.attrs.rad = some r → (r != 0 && decide (0 < r) && decide (r ≤ 3)) = true := by
    intro r hc; obtain ⟨h1, h2⟩ := hrad r hc
    have h0 : r ≠ 0 := by omega
    simp [h0, h1, h2]
  have h3 : ∀ m, n.attrs.mass = some m → (m != 0 && decide (m > 0)) = true := by
    intro m hc; have h1 := hmass m hc
    have h0 : m ≠ 0 := by omega
    simp [h0, h1]
  clear hchg hrad hmass
  unfold atomLine
  simp only [hsym, Option.elim, ok_bind]
  cases hc : n.attrs.chg <;> cases hr : n.attrs.rad <;> cases hm : n.attrs.mass <;>
    simp only [hc, hr, hm, Option.some.injEq, forall_eq', reduceCtorEq, false_imp_iff, implies_true] at h1 h2 h3 <;>
    simp [*, optTok, joinSp, cs, pure, Except.pure]

end LineM
open LineM

/-- **Writer atom line → reader.**  For a node whose symbol is an element symbol (not D or T), whose
coordinate tokens are blank-free float texts, the V3000 reader decodes the line the writer produces to
exactly the written data: symbol, atomic number, coordinates, and charge / radical / mass whenever they
are in the format's ranges (non-zero charge within ±15, radical 1–3, mass > 0) — and nothing else. -/
theorem atomLine_roundtrip (n : Node) (sym : Str) (hsym : n.attrs.sym = some sym) (hel : sym ∈ elementSyms)
    (hx : ∀ t ∈ [n.attrs.x.getD zeroCoord, n.attrs.y.getD zeroCoord, n.attrs.zc.getD zeroCoord],
      IsToken t ∧ pyFloatOk t = true)
    (hchg : ∀ c, n.attrs.chg = some c → c ≠ 0 ∧ -15 ≤ c ∧ c ≤ 15)
    (hrad : ∀ r, n.attrs.rad = some r → 0 < r ∧ r ≤ 3)
    (hmass : ∀ m, n.attrs.mass = some m → 0 < m ∧ (intRepr m).length ≤ intMaxStrDigits) :
    ∃ line z, atomLine n = .ok line ∧ atomicNumberOf sym = .ok z ∧
      (tokenizeLine (v30Prefix ++ line))[2]? = some (natRepr (n.id + 1)) ∧
      parseAtomAttributesV3000 (tokenizeLine (v30Prefix ++ line)) =
        .ok (some { sym := some sym, z := some z, part := some 0,
                    x := some (n.attrs.x.getD zeroCoord), y := some (n.attrs.y.getD zeroCoord),
                    zc := some (n.attrs.zc.getD zeroCoord),
                    chg := n.attrs.chg, rad := n.attrs.rad, mass := n.attrs.mass }) := by
  obtain ⟨z, hz, _, _⟩ := atomicNumberOf_elementSyms sym hel
  -- abbreviations
  generalize hX : n.attrs.x.getD zeroCoord = X at hx ⊢
  generalize hY : n.attrs.y.getD zeroCoord = Y at hx ⊢
  generalize hZ : n.attrs.zc.getD zeroCoord = Z at hx ⊢
  obtain ⟨hXt, hXf⟩ := hx X (by simp)
  obtain ⟨hYt, hYf⟩ := hx Y (by simp)
  obtain ⟨hZt, hZf⟩ := hx Z (by simp)
  have hline := atomLine_eq n sym hsym hchg hrad (fun m hm => (hmass m hm).1)
  rw [hX, hY, hZ] at hline
  -- token facts
  have kC : KeyC (cs "CHG") := Or.inl rfl
  have kM : KeyC (cs "MASS") := Or.inr (Or.inl rfl)
  have kR : KeyC (cs "RAD") := Or.inr (Or.inr rfl)
  have hidx := natRepr_shape' (n.id + 1)
  have hidxTok : IsToken (natRepr (n.id + 1)) := ⟨hidx.1, fun c hc => isDigit_not_space (hidx.2.1 c hc)⟩
  have hsok : symOk sym = true := List.all_eq_true.1 elementSyms_symOk sym hel
  simp only [symOk, Bool.and_eq_true, bne_iff_ne, ne_eq, List.all_eq_true, Bool.not_eq_true'] at hsok
  obtain ⟨⟨⟨⟨⟨⟨⟨hs1, hs2⟩, hs3⟩, hs4⟩, hs5⟩, hs6⟩, hs7⟩, hs8⟩ := hsok
  have hsymTok : IsToken sym := ⟨hs1, hs2⟩
  have hzeroTok : IsToken ['0'] := ⟨by simp, by decide⟩
  let base : List Str := [natRepr (n.id + 1), sym, X, Y, Z, ['0']]
  let toks : List Str := base ++ optTok (cs "CHG") n.attrs.chg ++ optTok (cs "RAD") n.attrs.rad
      ++ optTok (cs "MASS") n.attrs.mass
  have htoks : ∀ t ∈ toks, IsToken t := by
    intro t ht
    simp only [toks, base, List.mem_append, List.mem_cons, List.not_mem_nil, or_false] at ht
    rcases ht with ((((rfl | rfl | rfl | rfl | rfl | rfl) | h) | h) | h)
    · exact hidxTok
    · exact hsymTok
    · exact hXt
    · exact hYt
    · exact hZt
    · exact hzeroTok
    · exact optTok_isToken kC _ t h
    · exact optTok_isToken kR _ t h
    · exact optTok_isToken kM _ t h
  have hL : tokenizeLine (v30Prefix ++ joinSp toks) = cs "M" :: cs "V30" :: toks :=
    tokenizeLine_v30 toks (by simp [toks, base]) htoks
  -- no base token is a keyword token
  have hbase : ∀ key, KeyC key → ∀ t ∈ cs "M" :: cs "V30" :: base, Miss key t := by
    intro key hk t ht
    simp only [base, List.mem_cons, List.not_mem_nil, or_false] at ht
    rcases ht with rfl | rfl | rfl | rfl | rfl | rfl | rfl | rfl
    · exact miss_M hk
    · exact miss_of_head hk _ (by simp [cs])
    · apply miss_of_head hk
      cases hd : natRepr (n.id + 1) with
      | nil => simp
      | cons c r =>
        have := (isDigit_iff c).1 (hidx.2.1 c (by simp [hd]))
        simp only [List.head?_cons, ne_eq, Option.some.injEq]
        refine ⟨?_, ?_, ?_⟩ <;> (rintro rfl; revert this; decide)
    · rcases hk with rfl | rfl | rfl
      · rw [cs_CHG]; exact hs6
      · rw [cs_MASS]; exact hs7
      · rw [cs_RAD]; exact hs8
    · exact miss_of_head hk _ (float_head hXt hXf)
    · exact miss_of_head hk _ (float_head hYt hYf)
    · exact miss_of_head hk _ (float_head hZt hZf)
    · exact miss_of_head hk _ (by simp)
  have hsplit : cs "M" :: cs "V30" :: toks = (cs "M" :: cs "V30" :: base) ++ optTok (cs "CHG") n.attrs.chg
      ++ optTok (cs "RAD") n.attrs.rad ++ optTok (cs "MASS") n.attrs.mass := by
    simp [toks]
  have neCM : (cs "CHG").head? ≠ (cs "MASS").head? := by rw [cs_CHG, cs_MASS]; decide
  have neCR : (cs "CHG").head? ≠ (cs "RAD").head? := by rw [cs_CHG, cs_RAD]; decide
  have neMR : (cs "MASS").head? ≠ (cs "RAD").head? := by rw [cs_MASS, cs_RAD]; decide
  have hkc : keywordValues (cs "CHG") (cs "M" :: cs "V30" :: toks) = .ok n.attrs.chg.toList := by
    rw [keywordValues_eq, hsplit]
    simp only [kvFrom_append, kvFrom_miss _ _ _ (hbase _ kC), ok_bind,
      kvFrom_optTok_same kC _ _ (fun c hc => intRepr_small_len c (by have := hchg c hc; omega) (by have := hchg c hc; omega)),
      kvFrom_optTok_other kC kR neCR, kvFrom_optTok_other kC kM neCM, List.nil_append]
  have hkr : keywordValues (cs "RAD") (cs "M" :: cs "V30" :: toks) = .ok n.attrs.rad.toList := by
    rw [keywordValues_eq, hsplit]
    simp only [kvFrom_append, kvFrom_miss _ _ _ (hbase _ kR), ok_bind,
      kvFrom_optTok_same kR _ _ (fun c hc => intRepr_small_len c (by have := hrad c hc; omega) (by have := hrad c hc; omega)),
      kvFrom_optTok_other kR kC neCR.symm, kvFrom_optTok_other kR kM neMR.symm, List.nil_append]
  have hkm : keywordValues (cs "MASS") (cs "M" :: cs "V30" :: toks) = .ok n.attrs.mass.toList := by
    rw [keywordValues_eq, hsplit]
    simp only [kvFrom_append, kvFrom_miss _ _ _ (hbase _ kM), ok_bind,
      kvFrom_optTok_same kM _ _ (fun c hc => (hmass c hc).2),
      kvFrom_optTok_other kM kC neCM.symm, kvFrom_optTok_other kM kR neMR, List.nil_append]
  have hpf : ∀ t, IsToken t → pyFloatOk t = true → pyFloat t = .ok t := by
    intro t ht hf
    simp only [pyFloat, hf, if_true, strip_of_all t ht.2]
  have hdet : detectHydrogenIsotopes sym = (sym, 0) := by
    simp only [detectHydrogenIsotopes, beq_iff_eq, hs4, hs5, if_false]
  have hstar : (sym == ['*']) = false := by simpa using hs3
  refine ⟨joinSp toks, z, hline, hz, ?_, ?_⟩
  · rw [hL]; rfl
  · rw [hL]
    have := parse_eval (cs "M" :: cs "V30" :: toks) sym X Y Z z _ _ _ rfl hstar hdet hz rfl rfl rfl
      (hpf X hXt hXf) (hpf Y hYt hYf) (hpf Z hZt hZf) hkc hkm hkr
    rw [this, lastNonZero_toList n.attrs.chg (fun c hc => (hchg c hc).1),
      lastNonZero_toList n.attrs.rad (fun c hc => by have := hrad c hc; omega),
      lastNonZero_toList n.attrs.mass (fun c hc => by have := hmass c hc; omega)]

end Tucan
