import TucanModel.Py
import TucanModel.Nx
import TucanModel.GraphUtils
import TucanModel.Canon
import TucanModel.Serialize
import TucanModel.Codec
import TucanModel.Ops
